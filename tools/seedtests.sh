#!/bin/bash
# tools/seedtests.sh <seed worktree> : run the pinned test suite against the worktree (seeded change applied) and compare with stable_pass
W="$1"
J=$(mktemp /tmp/ctm_junit_XXXXXX.xml)
( cd "$W" && env -u CELL_TYPE_MAPPER_VERIF -u CELL_TYPE_MAPPER_VERIF_TRACE PYTHONPATH="$W/src" /venv/bin/python -m pytest -q -p no:cacheprovider --timeout=900 --continue-on-collection-errors --junitxml="$J" >/dev/null 2>&1 )
/venv/bin/python - "$J" "$W" <<'PY'
import json, sys, xml.etree.ElementTree as ET
base = json.load(open('/root/.vp/BASELINE.json'))
passed = set()
for tc in ET.parse(sys.argv[1]).getroot().iter('testcase'):
    if not any(ch.tag in ('failure', 'error', 'skipped') for ch in tc):
        passed.add(f"{tc.get('classname')}::{tc.get('name')}")
missing = sorted(set(base['stable_pass']) - passed)
print(f"{sys.argv[2]}: stable_pass={len(base['stable_pass'])} passed_now={len(passed)} missing={len(missing)}", *missing[:5])
PY
rm -f "$J"
