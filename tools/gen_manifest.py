#!/venv/bin/python
"""(re)generate MANIFEST.json from the property modules that exist"""
import importlib, json, pathlib, subprocess, sys
V = pathlib.Path(__file__).resolve().parent.parent
sys.path.insert(0, str(V)); sys.path.insert(0, '/repo/src')
props = [json.loads(l) for l in (V / 'properties.jsonl').read_text().splitlines() if l.strip()]
hook_commits = subprocess.run(['git', '-C', '/repo', 'log', '--format=%H %s'], capture_output=True, text=True).stdout.splitlines()
hook_commits = [l.split()[0] for l in hook_commits if 'verif hook' in l]
checks, na = [], []
READY = set((V / 'tools' / 'ready.txt').read_text().split())
NA_REASONS = {}
for p in props:
    pid = p['id']
    f = V / 'pbt' / 'props' / f'{pid.lower()}.py'
    if not f.exists() or pid not in READY:
        na.append({'property_id': pid, 'reason': NA_REASONS.get(pid, 'check not built yet (work in progress); the technique applies, see DESIGN.md section 2')})
        continue
    mod = importlib.import_module(f'pbt.props.{pid.lower()}')
    checks.append({
        'property_id': pid,
        'quick_cmd': f'./vcheck {pid} quick',
        'thorough_cmd': f'./vcheck {pid} thorough',
        'evidence_file': f'evidence/{pid}.json',
        'replay_cmd_template': f'./vcheck {pid} quick --replay {{path}}',
        'engine': 'pbt',
        'level_claimed': {'category': mod.LEVEL, 'text': mod.LEVEL_TEXT if hasattr(mod, 'LEVEL_TEXT') else
                          'held on every generated/enumerated case explored (counted and sampled in the evidence file); no claim of absence beyond the explored set',
                          'design_ref': f'DESIGN.md section 2, {pid}'},
        'level_note': '; '.join(getattr(mod, 'ASSUMPTIONS', [])) or 'input domain as in DESIGN.md section 1.1',
        'technique': mod.TECHNIQUE,
    })
m = {
    'version': 1,
    'setup_cmd': './setup.sh',
    'hooks': {
        'guard': 'CELL_TYPE_MAPPER_VERIF',
        'enable': 'checks run /repo/src from the working tree (PYTHONPATH) with CELL_TYPE_MAPPER_VERIF=1 and CELL_TYPE_MAPPER_VERIF_TRACE=<dir>; nothing to build',
        'baseline_off_cmd': '/venv/bin/python tools/baseline_off.py',
        'source_commits': hook_commits,
        'add_only': True,
    },
    'engines': [{'name': 'pbt', 'path': 'pbt/', 'serves_properties': [c['property_id'] for c in checks],
                 'kind_free_text': 'Hypothesis property-based testing (sharded over 16 processes), bounded-exhaustive enumeration, stateful machines, fault injection via multiprocessing.Process subclass'}],
    'checks': checks,
    'notes': 'known findings and fixes: known_findings.json; design: DESIGN.md',
    'not_applicable': na,
}
(V / 'MANIFEST.json').write_text(json.dumps(m, indent=1))
print('checks', [c['property_id'] for c in checks], 'n/a', len(na))
