#!/bin/bash
# tools/seedcheck.sh <seed worktree> <ID> [more IDs...] : confirm the seeded change (demo fails with / passes without), then run checks against it
W="$1"; shift
cd "$W" || exit 2
git diff -- src > OUT/patch.diff
echo "--- patch: $(wc -l < OUT/patch.diff) lines, files: $(git diff --stat -- src | tail -1)"
PYTHONPATH="$W/src" timeout 600 /venv/bin/python OUT/demo.py > OUT/demo_with.log 2>&1; echo "demo WITH change: exit $?"
# (git stash is shared between worktrees: revert and re-apply through the patch file instead)
git apply -R OUT/patch.diff
PYTHONPATH="$W/src" timeout 600 /venv/bin/python OUT/demo.py > OUT/demo_without.log 2>&1; echo "demo WITHOUT change: exit $?"
git apply OUT/patch.diff
for ID in "$@"; do
  O=$(mktemp -d /tmp/ctm_seedout_XXXXXX)
  VERIF_REPO="$W" VERIF_OUT_DIR="$O" /verif/vcheck "$ID" quick 2>&1 | grep -v "^classes:" | tail -3 | cut -c1-500
  echo "check $ID exit ${PIPESTATUS[0]}"
  rm -rf "$O"
done
