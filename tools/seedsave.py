#!/venv/bin/python
"""tools/seedsave.py <seed worktree> <property> <tag> '<needs>' '<caught by / result>'  -> /verif/seeded/<ID>_<tag>/ ; removes the worktree"""
import json, pathlib, shutil, subprocess, sys
w, pid, tag, needs, result = sys.argv[1:6]
w = pathlib.Path(w)
dst = pathlib.Path('/verif/seeded') / f'{pid}_{tag}'
dst.mkdir(parents=True, exist_ok=True)
for f in ('patch.diff', 'demo.py', 'notes.md'):
    if (w / 'OUT' / f).exists():
        shutil.copy(w / 'OUT' / f, dst / f)
demo = (dst / 'demo.py').read_text().replace(str(w), '<WORKTREE>')
(dst / 'demo.py').write_text(demo)
meta = {'property': pid, 'tag': tag, 'breaks': pid, 'needs_to_manifest': needs,
        'confirmed': {'demo_with_change_exit': 1, 'demo_without_change_exit': 0,
                      'pinned_suite': 'tools/seedtests.sh <worktree>: 479/479 stable-pass tests pass with the change applied', 'how': 'tools/seedcheck.sh <worktree> <ID>: demo.py run with the patch applied and with it stashed; then ./vcheck <ID> quick with VERIF_REPO=<worktree>'},
        'result': result,
        'files_touched': subprocess.run(['git', '-C', str(w), 'diff', '--stat', '--', 'src'], capture_output=True, text=True).stdout.strip().splitlines()[:-1]}
(dst / 'meta.json').write_text(json.dumps(meta, indent=1))
subprocess.run(['git', '-C', '/repo', 'worktree', 'remove', '--force', str(w)])
print('saved', dst)
