#!/venv/bin/python
"""print the prompt for a seeding sub-agent: tools/seed_prompt.py C01 a"""
import json, sys
pid, tag = sys.argv[1], sys.argv[2]
extra = sys.argv[3] if len(sys.argv) > 3 else ''
p = [json.loads(l) for l in open('/verif/properties.jsonl') if l.strip() and json.loads(l)['id'] == pid][0]
w = f'/tmp/seed_{pid}_{tag}'
print(f"""You are testing how well a verification effort detects realistic regressions. You work ONLY inside your own scratch git worktree of the Python package AllenInstitute/cell_type_mapper at {w} (source under {w}/src/cell_type_mapper, tests under {w}/tests, docs under {w}/docs). Do not read or write anything under /verif or /repo, and do not look at other /tmp/seed_* or /tmp/ctm_* directories. No network.

Run Python as: cd {w} && PYTHONPATH={w}/src /venv/bin/python ...   (pytest: cd {w} && PYTHONPATH={w}/src /venv/bin/python -m pytest -q -p no:cacheprovider tests/<dir or file>). Note: many tests of the suite fail or error in this environment even on the unchanged code (anndata removed a keyword the fixtures use; argschema parsers cannot be built); only the set of tests that PASS on the unchanged code matters. The argschema command-line runners cannot be constructed: drive library functions directly (e.g. cell_type_mapper.cli.from_specified_markers.run_mapping(config, output_path, log_path, hdf5_output_path) takes a plain config dict; read the code for the keys).

The property of the package you must break:

  TITLE: {p['title']}
  STATEMENT: {p['statement']}
  IT IS QUANTIFIED: {p['quantifier']['text']}

Your task: make ONE change to the package source (one site, or two cooperating sites that each look fine alone) that makes this property false for SOME inputs/configurations/schedules, such that
  1. the package still imports and every test that passed before still passes (check at least the test directories related to the files you touch: run them before and after your change and compare the sets of passing tests; they must be identical);
  2. the breakage needs something SPECIFIC to manifest - an unusual but legitimate input, a particular configuration value or combination, a multi-step sequence, a particular worker interleaving/completion order, a crash or fault at a particular point - NOT something every ordinary use would expose at once (a change that breaks every run is useless). It should look like a plausible slip or a well-meant "optimisation"/refactoring a maintainer could make, not sabotage; no dead code, no references to testing, no special-casing of magic cell names.
  3. you provide a demonstration: a small self-contained program {w}/OUT/demo.py that builds its own tiny inputs in a temp dir, exercises the changed code through public functions, exits 0 when the property holds and exits 1 (printing what went wrong) when it is violated. It must exit 1 with your change and exit 0 on the unchanged code (verify both: `git stash` / `git stash pop`, or `git diff > patch; git checkout -- src; run; git apply patch`).
{extra}
Deliver in {w}/OUT/ : patch.diff (output of `git diff -- src` in the worktree), demo.py, and notes.md (what the change is, why it breaks the property, exactly what is needed for it to manifest, which test directories you ran before/after with pass counts). Leave the worktree with the change applied. Your final message should summarise notes.md in a few lines.""")
