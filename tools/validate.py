#!/usr/bin/env python3-vt
import json, sys, glob, jsonschema
m = json.load(open('/verif/MANIFEST.json'))
jsonschema.validate(m, json.load(open('/root/.vp/MANIFEST.schema.json')))
es = json.load(open('/root/.vp/EVIDENCE.schema.json'))
bad = 0
for c in m['checks']:
    try:
        jsonschema.validate(json.load(open('/verif/' + c['evidence_file'])), es)
    except Exception as e:
        bad += 1; print('BAD', c['evidence_file'], str(e)[:200])
print('manifest valid; evidence files bad =', bad)
sys.exit(1 if bad else 0)
