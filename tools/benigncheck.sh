#!/bin/bash
# tools/benigncheck.sh <worktree> <ID...> : run checks against a behaviour-preserving change; every check must stay silent
W="$1"; shift
for ID in "$@"; do
  O=$(mktemp -d /tmp/ctm_benout_XXXXXX)
  VERIF_REPO="$W" VERIF_OUT_DIR="$O" /verif/vcheck "$ID" quick > "$O/log" 2>&1; rc=$?
  echo "$(basename $W) $ID rc=$rc $(grep -m1 'clause:' "$O/log" | cut -c1-300) $(grep -m1 HARNESS "$O/log" | cut -c1-200)"
  if [ $rc -ne 0 ]; then mkdir -p /verif/sweep_failures; cp "$O/log" "/verif/sweep_failures/benign_$(basename $W)_$ID.log"; cp -r "$O/replays" "/verif/sweep_failures/benign_$(basename $W)_${ID}_replays" 2>/dev/null; fi
  rm -rf "$O"
done
