#!/venv/bin/python
"""tools/mkmut.py <name> <relative file> <old> <new>  -> mutants/<name>.diff (repo is left unchanged)"""
import subprocess, sys, pathlib
name, rel, old, new = sys.argv[1:5]
p = pathlib.Path('/repo') / rel
s = p.read_text()
old = old.encode().decode('unicode_escape'); new = new.encode().decode('unicode_escape')
assert s.count(old) >= 1, 'old text not found'
p.write_text(s.replace(old, new, 1))
d = subprocess.run(['git', '-C', '/repo', 'diff'], capture_output=True, text=True).stdout
subprocess.run(['git', '-C', '/repo', 'checkout', '--', rel])
pathlib.Path('/verif/mutants').mkdir(exist_ok=True)
pathlib.Path(f'/verif/mutants/{name}.diff').write_text(d)
print(name, len(d.splitlines()), 'lines')
