#!/venv/bin/python
"""tools/mkmut.py <name> <file relative to /repo> <old> <new>  -> mutants/<name>.diff
The edit is made in a throw-away git worktree; /repo's working tree is never touched."""
import subprocess, sys, pathlib, tempfile, shutil
name, rel, old, new = sys.argv[1:5]
old = old.encode().decode('unicode_escape'); new = new.encode().decode('unicode_escape')
w = tempfile.mkdtemp(prefix='ctm_mkmut_', dir='/tmp'); shutil.rmtree(w)
subprocess.run(['git', '-C', '/repo', 'worktree', 'add', '-q', '--detach', w, 'HEAD'], check=True)
try:
    p = pathlib.Path(w) / rel
    s = p.read_text()
    assert s.count(old) >= 1, 'old text not found'
    p.write_text(s.replace(old, new, 1))
    d = subprocess.run(['git', '-C', w, 'diff'], capture_output=True, text=True).stdout
finally:
    subprocess.run(['git', '-C', '/repo', 'worktree', 'remove', '--force', w])
pathlib.Path('/verif/mutants').mkdir(exist_ok=True)
pathlib.Path(f'/verif/mutants/{name}.diff').write_text(d)
print(name, len(d.splitlines()), 'lines')
