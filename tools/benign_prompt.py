#!/venv/bin/python
"""print the prompt for a 'benign refactoring' sub-agent: tools/benign_prompt.py <tag> '<area description>'"""
import json, sys
tag, area = sys.argv[1], sys.argv[2]
w = f'/tmp/benign_{tag}'
props = [json.loads(l) for l in open('/verif/properties.jsonl') if l.strip()]
plist = '\n'.join(f"  {p['id']} {p['title']}: {p['statement']}" for p in props)
print(f"""You are helping to test a verification effort for false alarms. You work ONLY inside your own scratch git worktree of the Python package AllenInstitute/cell_type_mapper at {w} (source under {w}/src/cell_type_mapper, tests under {w}/tests). Do not read or write anything under /verif or /repo, and do not look at other /tmp directories. No network. Do not use `git stash` (it is shared between worktrees); use `git diff > file` / `git checkout -- src` / `git apply file`.

Run Python as: cd {w} && PYTHONPATH={w}/src /venv/bin/python ...   (pytest: cd {w} && PYTHONPATH={w}/src /venv/bin/python -m pytest -q -p no:cacheprovider tests/<dir>). Many tests fail or error in this environment even on the unchanged code (anndata removed a keyword the fixtures use; argschema parsers cannot be built); only the set of tests that PASS on the unchanged code matters, and it must stay identical.

Your task: make a substantial BEHAVIOUR-PRESERVING change to the package in this area: {area}
The change should be the kind of thing a maintainer does all the time - restructure loops, rename private helpers and local variables, split or merge private functions, change internal data structures (list <-> array, dict <-> list), change dtypes of internal buffers where the results cannot change, change HDF5 chunk/compression settings of scratch or output files, change internal batch/chunk sizes or the order in which independent work is done, add, remove or reword log and warning messages (without putting absolute paths into them), change the names of temporary files and directories (keeping them unique and cleaned up), add defensive checks - but every one of the following properties of the package MUST STILL HOLD exactly as before (results bit-for-bit identical for the same inputs, configuration and seed; same errors raised for the same invalid inputs; the random number stream consumed in the same way):

{plist}

Also keep the three `verif_hooks.emit(...)` call sites in type_assignment/election.py working with the same meaning if you touch that file: 'chunk' is emitted once per worker with the cell ids of its chunk; 'node' once per visited parent node with the ordered gene names of the node's marker matrix, the number of cells and the bootstrap factor; 'subset' once per bootstrap iteration with the drawn column subset, in the order drawn (they are guarded no-ops used by external instrumentation).

Aim for a change of 40-150 changed lines touching 1-3 files, clearly more than cosmetic. Before/after, run the related test directories and confirm the sets of passing tests are identical. Write a small script {w}/OUT/equiv.py that builds tiny inputs and shows that outputs of the changed functions are identical before and after the change (run it on the unchanged code to record expected outputs to a JSON file, then on the changed code to compare), and run it both ways.

Deliver in {w}/OUT/ : patch.diff (git diff -- src), equiv.py, notes.md (what you changed and why it is behaviour preserving, tests run with pass counts). Leave the worktree with the change applied. Final message: a short summary.""")
