#!/bin/bash
# tools/sweep.sh <tier> <seed...> : run all registered checks for the given seeds (outputs redirected; evidence untouched)
TIER="$1"; shift
for S in "$@"; do
  for ID in $(cat /verif/tools/ready.txt); do
    O=$(mktemp -d /tmp/ctm_sweep_XXXXXX)
    t0=$(date +%s)
    VERIF_SEED=$S VERIF_OUT_DIR="$O" /verif/vcheck "$ID" "$TIER" > "$O/log" 2>&1; rc=$?
    t1=$(date +%s)
    echo "seed=$S $ID rc=$rc wall=$((t1-t0))s $(grep -c VIOLATION "$O/log") violations $(grep -m1 'clause:' "$O/log" | cut -c1-200)"
    if [ $rc -ne 0 ]; then mkdir -p /verif/sweep_failures; cp "$O/log" "/verif/sweep_failures/${ID}_seed${S}.log"; cp -r "$O/replays" "/verif/sweep_failures/${ID}_seed${S}_replays" 2>/dev/null; fi
    rm -rf "$O"
  done
done
