#!/bin/bash
# run every mutants/<cNN>_*.diff against its property's quick check; prints CAUGHT / missed
for f in /verif/mutants/c*.diff; do
  b=$(basename "$f" .diff); id=$(echo "$b" | cut -c1-3 | tr c C)
  out=$(/verif/tools/mutant.sh "$f" "$id" 2>&1); rc=$?
  if echo "$out" | grep -q "VIOLATION property=$id"; then echo "CAUGHT  $b"; elif echo "$out" | grep -q "PATCH DOES NOT APPLY"; then echo "NOAPPLY $b"; else echo "missed  $b (rc=$rc)"; fi
done
