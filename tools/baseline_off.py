#!/venv/bin/python
"""Run the repository's pinned baseline with the verification guard OFF and
compare the set of passing tests with /root/.vp/BASELINE.json (stable_pass).
Exit 0 iff every stable_pass test passes."""
import json, os, subprocess, sys, tempfile, xml.etree.ElementTree as ET

def main():
    base = json.load(open('/root/.vp/BASELINE.json'))
    env = dict(os.environ)
    for k in list(env):
        if k.startswith('CELL_TYPE_MAPPER_VERIF'):
            env.pop(k)
    with tempfile.TemporaryDirectory() as d:
        junit = os.path.join(d, 'junit.xml')
        cmd = base['cmd'].replace('<file>', junit)
        extra = os.environ.get('BASELINE_EXTRA', '')
        if extra:
            cmd = cmd.replace('-m pytest', '-m pytest ' + extra)
        subprocess.run(cmd, shell=True, env=env, stdout=subprocess.DEVNULL, stderr=subprocess.DEVNULL)
        passed = set()
        for tc in ET.parse(junit).getroot().iter('testcase'):
            if not any(ch.tag in ('failure', 'error', 'skipped') for ch in tc):
                passed.add(f"{tc.get('classname')}::{tc.get('name')}")
    want = set(base['stable_pass'])
    missing = sorted(want - passed)
    print(f'stable_pass={len(want)} passed_now={len(passed)} missing={len(missing)}')
    for m in missing[:50]:
        print('MISSING', m)
    return 1 if missing else 0

if __name__ == '__main__':
    sys.exit(main())
