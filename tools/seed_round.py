#!/venv/bin/python
"""tools/seed_round.py <tag> <ID...> : create worktrees and prompts for a new seed round; the 'already tried' list
is taken from the archived seeds' meta.json"""
import json, pathlib, subprocess, sys
tag = sys.argv[1]
for pid in sys.argv[2:]:
    tried = []
    for d in sorted(pathlib.Path('/verif/seeded').glob(f'{pid}_*')):
        m = json.loads((d / 'meta.json').read_text())
        tried.append(m['needs_to_manifest'])
    extra = ('  4. Other engineers already tried the following ideas (described by what each needs in order to manifest), so yours must be of a '
             'different nature - a different mechanism, preferably in a different file or function, and a different part of the statement: '
             + ' '.join(f'({i+1}) {t};' for i, t in enumerate(tried)))
    w = f'/tmp/seed_{pid}_{tag}'
    subprocess.run(['git', '-C', '/repo', 'worktree', 'add', '-q', '--detach', w, 'HEAD'], check=True)
    pathlib.Path(w, 'OUT').mkdir(exist_ok=True)
    p = subprocess.run(['/verif/tools/seed_prompt.py', pid, tag, extra], capture_output=True, text=True).stdout
    p = p.replace("verify both: `git stash` / `git stash pop`, or `git diff > patch; git checkout -- src; run; git apply patch`",
                  "verify both with `git diff -- src > OUT/patch.diff; git checkout -- src; run; git apply OUT/patch.diff` - do NOT use git stash, it is shared between worktrees")
    pathlib.Path(f'/tmp/seed_prompt_{pid}_{tag}.txt').write_text(p)
    print(pid, len(tried), 'prior ideas')
