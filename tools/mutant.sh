#!/bin/bash
# tools/mutant.sh <patch.diff|-> <ID> [tier]   : run a check against a scratch worktree of /repo with a patch applied
# prints the check output; exit code of the check. The worktree is removed afterwards.
set -u
PATCH="$1"; [ "$PATCH" != "-" ] && PATCH="$(realpath "$PATCH")"; ID="$2"; TIER="${3:-quick}"
W=$(mktemp -d /tmp/ctm_mut_XXXXXX)
rmdir "$W"
git -C /repo worktree add -q --detach "$W" HEAD || exit 2
if [ "$PATCH" != "-" ]; then
  git -C "$W" apply "$PATCH" || { echo "PATCH DOES NOT APPLY"; git -C /repo worktree remove --force "$W"; exit 2; }
fi
O=$(mktemp -d /tmp/ctm_mutout_XXXXXX)
VERIF_REPO="$W" VERIF_OUT_DIR="$O" /verif/vcheck "$ID" "$TIER" 2>&1 | grep -v "^classes:" | cut -c1-400
rc=${PIPESTATUS[0]}
git -C /repo worktree remove --force "$W"
rm -rf "$O"
exit $rc
