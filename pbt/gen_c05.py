"""
C05 helpers: matrix expansion (position-identifying values), h5ad writers for every
on-disk layout (encoding, location, index width, HDF5 chunking) and the Hypothesis strategies.

A matrix description `m` is
  {'shape': [n_rows, n_cols], 'dtype': ..., 'big': bool, 'stored_zeros': bool,
   and one of
     'mask': int            bit (i*n_cols + j) set <=> an entry is stored at (i, j)
     'seed', 'density', 'family', 'empty_rows', 'empty_cols'}
The reference is the dense array returned by expand_matrix; the sparse encodings store
exactly the positions of the pattern P (with 'stored_zeros' some of them hold the value 0).
"""
import h5py
import numpy as np
import scipy.sparse as sp
import hypothesis.strategies as st

from pbt import gen, materialize, pipeline

DTYPES = list(gen.DTYPES)
# budgets (max_gb of the iterator).  0.64*max_gb*2**30 bytes are shared by the converter: below ~1e-5
# both of its block sizes sit at the enforced minimum of 100 elements, 1.3e-5 .. 1e-4 give block sizes
# of a few hundred elements (several blocks for the larger generated matrices), >= 1e-3 a single block
BUDGETS = [1e-9, 1e-9, 1e-9, 4e-6, 1.3e-5, 3e-5, 1e-4, 1e-3, 1.0, 10]
LAYERS = [None, None, 'raw', 'counts', 'X2']
CHUNKS = [1, 2, 7, 64, 100000]


# ------------------------------------------------------------------ expansion
def expand_matrix(m):
    """-> (x dense [n_rows, n_cols] of m['dtype'], P bool pattern of stored positions)"""
    n, g = m['shape']
    dt = np.dtype(m['dtype'])
    if 'mask' in m:
        k = int(m['mask'])
        P = np.array([(k >> b) & 1 for b in range(n * g)], dtype=bool).reshape((n, g))
    else:
        rng = np.random.default_rng(m['seed'])
        fam = m.get('family', 'random')
        if fam == 'full':
            P = np.ones((n, g), dtype=bool)
        elif fam == 'empty':
            P = np.zeros((n, g), dtype=bool)
        elif fam == 'single':
            P = np.zeros((n, g), dtype=bool)
            P[int(rng.integers(0, n)), int(rng.integers(0, g))] = True
        else:
            P = rng.random((n, g)) < m.get('density', 0.5)
            for i in m.get('empty_rows', []):
                P[i % n, :] = False
            for j in m.get('empty_cols', []):
                P[:, j % g] = False
    pos = np.arange(n * g, dtype=np.int64).reshape((n, g))
    big = bool(m.get('big'))
    if dt.kind in 'iu':
        if dt == np.uint8:
            V = (255 - pos % 250) if big else (1 + pos % 250)
        elif big:
            V = np.int64(np.iinfo(dt).max) - pos        # not representable in a narrower type
        else:
            V = 1 + pos
        if dt.kind == 'i':
            V = np.where(pos % 7 == 3, -V, V)
    else:
        V = (1 + pos).astype(np.float64)
        if dt == np.float32:
            V = V + 0.5
            if big:
                V = V * 2.0 ** 100
        else:
            V = V + 1.0 / 3.0                             # not representable in float32
            if big:
                V = V * 2.0 ** 600
        V = np.where(pos % 7 == 3, -V, V)
    if m.get('stored_zeros'):
        V = np.where(pos % 5 == 0, 0, V)
    x = np.where(P, V, 0).astype(dt)
    return x, P


def to_sparse(x, P, enc):
    """scipy matrix that stores exactly the positions of P (explicit zeros are kept)"""
    n, g = x.shape
    if enc == 'csr':
        i, j = np.nonzero(P)
        indptr = np.concatenate([[0], np.cumsum(P.sum(axis=1))]).astype(np.int32)
        return sp.csr_matrix((x[i, j], j.astype(np.int32), indptr), shape=(n, g))
    if enc == 'csc':
        j, i = np.nonzero(P.T)
        indptr = np.concatenate([[0], np.cumsum(P.sum(axis=0))]).astype(np.int32)
        return sp.csc_matrix((x[i, j], i.astype(np.int32), indptr), shape=(n, g))
    raise ValueError(enc)


def widen_index_arrays(path, key, dtype='int64'):
    """rewrite indices/indptr of a sparse group as int64 (what anndata writes for very large matrices) or as another
    integer type that holds them (files written by other tools)"""
    with h5py.File(path, 'a') as f:
        grp = f[key]
        for name in ('indices', 'indptr'):
            arr = grp[name][()]
            if arr.size and int(arr.max()) > np.iinfo(np.dtype(dtype)).max:
                dtype = 'int64'
            arr = arr.astype(np.dtype(dtype))
            attrs = dict(grp[name].attrs)
            del grp[name]
            d = grp.create_dataset(name, data=arr)
            for k, v in attrs.items():
                d.attrs[k] = v


def write_matrix_file(path, x, P, f):
    """f: file description {'enc', 'layer', 'rechunk', 'idx64'}; returns the facts read back from the file"""
    enc, layer = f['enc'], f.get('layer')
    n, g = x.shape
    cells = [f'c{i}' for i in range(n)]
    genes = [f'g{i}' for i in range(g)]
    if enc == 'dense':
        materialize.write_h5ad(path, x, cells, genes, enc='dense', layer=layer)
    else:
        # a scipy matrix of the right format passes through materialize.to_encoding unchanged
        materialize.write_h5ad(path, to_sparse(x, P, enc), cells, genes, enc=enc, layer=layer)
    key = 'X' if layer is None else f'layers/{layer}'
    if enc != 'dense' and f.get('idx64'):
        widen_index_arrays(path, key, f.get('idx_dtype', 'int64'))
    if f.get('rechunk'):
        materialize.rechunk_h5ad(path, f['rechunk'], layer)
    facts = {}
    with h5py.File(path, 'r') as h:
        obj = h[key]
        facts['encoding'] = str(obj.attrs['encoding-type'])
        if isinstance(obj, h5py.Dataset):
            facts['chunks'] = obj.chunks
            facts['dtype'] = str(obj.dtype)
            facts['nnz_stored'] = None
        else:
            facts['chunks'] = obj['data'].chunks
            facts['dtype'] = str(obj['data'].dtype)
            facts['nnz_stored'] = int(obj['data'].shape[0])
            facts['idx_dtype'] = str(obj['indices'].dtype)
    want = {'dense': 'array', 'csr': 'csr_matrix', 'csc': 'csc_matrix'}[enc]
    if facts['encoding'] != want or facts['dtype'] != str(x.dtype) or \
            (facts['nnz_stored'] is not None and facts['nnz_stored'] != int(P.sum())):
        raise RuntimeError(f'harness: file does not have the requested layout: {facts} vs {f} nnz={int(P.sum())}')
    return facts


# ------------------------------------------------------------------ strategies
@st.composite
def matrices(draw, size=None):
    size = size or draw(st.sampled_from(['tiny', 'small', 'small', 'small', 'big', 'big', 'big', 'wide', 'wide'] * 2 + ['tall']))
    if size == 'tiny':
        n, g = draw(st.integers(1, 4)), draw(st.integers(1, 4))
    elif size == 'small':
        n, g = draw(st.integers(1, 12)), draw(st.integers(1, 10))
    elif size == 'wide':
        # few cells, many genes: single rows with more than 100 stored entries (a cell expressing > 100 genes),
        # so that one row alone exceeds the per-pass element budget of the CSC->CSR conversion at its minimum
        n, g = draw(st.integers(2, 8)), draw(st.integers(110, 260))
    elif size == 'tall':
        # more rows than a one-byte counter holds; sometimes also more stored entries than a two-byte counter (65 535)
        n = draw(st.integers(257, 300))
        g = draw(st.sampled_from([2, 5, 9, 30]))
    else:
        n, g = draw(st.integers(8, 40)), draw(st.integers(6, 30))
    fam = draw(st.sampled_from(['random'] * 6 + ['empty', 'single', 'full']))
    m = {'shape': [n, g], 'dtype': draw(st.sampled_from(DTYPES)),
         'big': draw(st.integers(0, 3)) == 0, 'stored_zeros': draw(st.integers(0, 3)) == 0,
         'seed': draw(st.integers(0, 2 ** 31 - 1)), 'family': fam}
    if fam == 'random':
        m['density'] = draw(st.sampled_from([0.97] if n * g > 60000 else [0.1, 0.3, 0.6, 0.6, 0.9] if size != 'wide' else [0.6, 0.9, 0.95]))
        m['empty_rows'] = draw(st.lists(st.integers(0, n - 1), max_size=3, unique=True)) if draw(st.booleans()) else []
        m['empty_cols'] = draw(st.lists(st.integers(0, g - 1), max_size=3, unique=True)) if draw(st.booleans()) else []
    return m


@st.composite
def file_layouts(draw):
    enc = draw(st.sampled_from(['csc', 'csc', 'csr', 'dense']))
    f = {'enc': enc, 'layer': draw(st.sampled_from(LAYERS)), 'rechunk': None, 'idx64': False}
    if draw(st.integers(0, 2)) > 0:
        if enc == 'dense':
            f['rechunk'] = [draw(st.sampled_from(CHUNKS)), draw(st.sampled_from(CHUNKS))]
        else:
            f['rechunk'] = draw(st.sampled_from(CHUNKS))
    if enc != 'dense':
        f['idx64'] = draw(st.integers(0, 3)) == 0
        if f['idx64']:
            f['idx_dtype'] = draw(st.sampled_from(['int64', 'int64', 'uint32', 'uint16', 'int16']))
    return f


@st.composite
def row_chunk_sizes(draw, n):
    kind = draw(st.sampled_from(['any', 'any', 'any', 'one', 'n', 'divisor', 'beyond']))
    if n > 100 and kind in ('any', 'one', 'divisor'):
        return draw(st.sampled_from([7, 100, 128, 255, 256, 257, n - 1]))
    if kind == 'one':
        return 1
    if kind == 'n':
        return n
    if kind == 'divisor':
        divs = [k for k in range(1, n + 1) if n % k == 0]
        return draw(st.sampled_from(divs))
    if kind == 'beyond':
        return draw(st.integers(n + 1, n + 5))
    return draw(st.integers(1, n + 5))


@st.composite
def access_ops(draw, n):
    ops = []
    for _ in range(draw(st.integers(1, 6))):
        k = draw(st.sampled_from(['chunk', 'batch', 'batch', 'batch', 'item']))
        if k == 'chunk':
            r0 = draw(st.integers(0, n - 1))
            r1 = draw(st.integers(r0 + 1, n))
            ops.append({'op': 'chunk', 'r0': r0, 'r1': r1})
        elif k == 'item':
            ops.append({'op': 'item', 'r': draw(st.integers(0, n - 1))})
        else:
            how = draw(st.sampled_from(['any', 'any', 'all', 'reversed']))
            if how == 'all':
                rows = list(draw(st.permutations(list(range(n)))))
            elif how == 'reversed':
                a = draw(st.integers(0, n - 1))
                b = draw(st.integers(a + 1, n))
                rows = list(range(a, b))[::-1]
            else:
                rows = draw(st.lists(st.integers(0, n - 1), min_size=1, max_size=min(n, 9), unique=True))
            ops.append({'op': 'batch', 'rows': rows})
    return ops


@st.composite
def access_cases(draw):
    m = draw(matrices())
    n = m['shape'][0]
    return {'kind': 'A', 'mat': m, 'file': draw(file_layouts()),
            'row_chunk_sizes': draw(st.lists(row_chunk_sizes(n), min_size=1, max_size=2)),
            'max_gb': draw(st.sampled_from(BUDGETS)),
            'tmp_dir': draw(st.integers(0, 3)) > 0,
            'keep_open': draw(st.integers(0, 3)) > 0,
            'ops': draw(access_ops(n)),
            'order': draw(st.sampled_from(['interleaved', 'interleaved', 'before', 'after']))}


@st.composite
def mapping_cases(draw):
    if draw(st.booleans()):
        case = draw(gen.map_cases(max_cells=16))
    else:
        # the same recipe as gen.map_cases with a larger query (>100 stored entries, so that the
        # CSC conversion at the minimum budget works in several blocks)
        tree = draw(gen.trees(max_levels=3, max_leaves=8))
        ref = draw(gen.ref_specs(tree, min_genes=14, max_genes=24))
        markers = draw(gen.marker_tables(tree, ref['genes']))
        query = draw(gen.query_specs(ref['genes'], must_include=(markers['None'][0],), min_cells=10, max_cells=24))
        cfg = draw(gen.map_configs(tree, len(query['cells'])))
        case = {'tree': tree, 'ref': ref, 'markers': markers, 'query': query, 'cfg': cfg}
    return {'kind': 'M', 'case': case}


@st.composite
def stats_cases(draw):
    rs = draw(pipeline.ref_dataset_specs(max_levels=2, max_leaves=5, cells_per=draw(st.integers(2, 7))))
    return {'kind': 'S', 'rs': rs,
            'rows_at_a_time': draw(st.sampled_from([1, 2, 3, 5, 7, 11, 1000])),
            'n_processors': draw(st.integers(1, 3)),
            'normalization': draw(st.sampled_from(['raw', 'raw', 'log2CPM']))}


def cases(per_160=(4, 3)):
    """one spec; about per_160[0] mapping triples and per_160[1] statistics triples per 160 cases"""
    n_m, n_s = per_160
    kinds = ['A'] * (160 - n_m - n_s) + ['M'] * n_m + ['S'] * n_s

    @st.composite
    def one(draw):
        k = draw(st.sampled_from(kinds))
        if k == 'M':
            return draw(mapping_cases())
        if k == 'S':
            return draw(stats_cases())
        return draw(access_cases())
    return one()


# ------------------------------------------------------------------ enumeration
def all_row_lists(n):
    """every non-empty ordered list of distinct rows of range(n)"""
    import itertools
    out = []
    for k in range(1, n + 1):
        out += [list(p) for p in itertools.permutations(range(n), k)]
    return out


def enumerated(shapes):
    """every fill pattern of every listed shape x 3 encodings x {X, layer}; each case reads the file with
    every row_chunk_size 1..n+1, requests every row range r0<r1, every single row and every ordered list of
    distinct rows; dtype, budget (minimum / default), scratch dir, index width and HDF5 chunking rotate"""
    out = []
    k = 0
    for (n, g) in shapes:
        ops = [{'op': 'chunk', 'r0': a, 'r1': b} for a in range(n) for b in range(a + 1, n + 1)]
        ops += [{'op': 'item', 'r': r} for r in range(n)]
        ops += [{'op': 'batch', 'rows': rows} for rows in all_row_lists(n)]
        for mask in range(2 ** (n * g)):
            for enc in ('csr', 'csc', 'dense'):
                for layer in (None, 'raw'):
                    k += 1

                    def r(j, mod, k=k):
                        # decorrelated rotation of the j-th free attribute
                        return ((k * 7919 + j * 104729 + (k // 6) * 31) % 1000003) % mod
                    rc = [None, 1, 2, 7][r(0, 4)]
                    if rc is not None and enc == 'dense':
                        rc = [rc, [1, 2, 7][r(1, 3)]]
                    out.append({'kind': 'A',
                                'mat': {'shape': [n, g], 'dtype': DTYPES[r(2, len(DTYPES))], 'mask': mask,
                                        'big': r(3, 5) == 0, 'stored_zeros': r(4, 3) == 0},
                                'file': {'enc': enc, 'layer': layer, 'rechunk': rc,
                                         'idx64': enc != 'dense' and r(5, 4) == 0},
                                'row_chunk_sizes': list(range(1, n + 2)),
                                'max_gb': [1e-9, 10][r(6, 2)], 'tmp_dir': r(7, 3) != 0, 'keep_open': r(8, 2) == 0,
                                'ops': ops, 'order': ['interleaved', 'before', 'after'][r(9, 3)],
                                # the history checks (decoy file of the same name, reading resumed after next()) on a
                                # rotating part of the enumerated cases; generated cases always carry them
                                'decoy': r(10, 4) == 0, 'resume': 'first' if r(11, 3) == 0 else 'none'})
    return out
