"""
Generators, materialisation and the independent Welch/Holm reference model for C11.

A C11 spec describes per-cluster log2(CPM+1) cell matrices (expanded from a drawn seed and a
drawn per-gene / per-cluster recipe, or written out explicitly under 'cells'), the thresholds,
the optional gene list and the run configurations.  The precomputed-statistics file is
synthesised by hand from the cells following docs/input_data_files/precomputed_stats_file.md;
the reference model runs scipy.stats.ttest_ind(equal_var=False) on the very same cells.
"""
import itertools
import json

import h5py
import hypothesis.strategies as st
import numpy as np
import scipy.stats as ss

from pbt import gen

REL = 1.0e-6          # relative margin kept on every threshold comparison (DESIGN 1.4)
COND = 1.0e-8         # largest tolerated relative uncertainty of var1/n1+var2/n2 computed from sum/sumsq
EPS = float(np.finfo(float).eps)

GENE_KINDS = ['signal', 'signal', 'signal', 'weak', 'partial', 'noise', 'wide', 'const_same', 'const_diff',
              'all_zero', 'grid', 'one_exact']
# kinds whose columns vary inside (almost) every cluster: pairs without an undefined Welch test
VARYING_KINDS = ['signal', 'signal', 'weak', 'noise', 'wide', 'grid', 'partial']
MAX_VALUE = 19.9      # log2(1e6 + 1) = 19.93: no log2(CPM+1) value can be larger


# --------------------------------------------------------------------------- strategies
@st.composite
def leaf_names(draw, n):
    scheme = draw(st.sampled_from(['plain', 'scrambled', 'numeric']))
    salt = draw(st.integers(0, 96))
    if scheme == 'plain':
        return [f'cl{i:02d}' for i in range(n)]
    if scheme == 'scrambled':
        return [f'cl{(i * 7 + salt) % 97:02d}' for i in range(n)]
    return [str((i * 7 + salt) % 97) for i in range(n)]      # '10' < '9' alphabetically


@st.composite
def thresholds(draw):
    def pair(ths):
        th = draw(st.sampled_from(ths))
        fl = round(th * draw(st.sampled_from([0.0, 0.2, 0.5, 0.8])), 4)
        return th, fl
    q1, q1m = pair([0.3, 0.5, 0.5, 0.75])
    qd, qdm = pair([0.5, 0.7, 0.7, 0.9])
    fo, fom = pair([0.5, 1.0, 1.0, 2.0])
    return {'p_th': draw(st.sampled_from([0.001, 0.01, 0.01, 0.05, 0.2])),
            'q1_th': q1, 'q1_min_th': q1m, 'qdiff_th': qd, 'qdiff_min_th': qdm,
            'log2_fold_th': fo, 'log2_fold_min_th': fom}


@st.composite
def run_cfg(draw):
    return {'n_processors': draw(st.integers(1, 3)),
            'max_gb': draw(st.sampled_from([20, 1, 1, 0.01, 1e-7])),
            'n_per': draw(st.sampled_from([8, 8, 16, 10000]))}


@st.composite
def cases(draw, max_leaves=8, max_genes=24):
    n_leaves = draw(st.sampled_from([n for n in (2, 3, 3, 4, 4, 5, 5, 6, 6, 7, 8, 9, 10) if n <= max_leaves]))
    names = draw(leaf_names(n_leaves))
    n_genes = draw(st.integers(4, max_genes))
    # a long gene list with few markers, some of them far down the list (index beyond a one-byte counter)
    long_list = draw(st.integers(0, 9)) == 0
    if long_list:
        n_genes = draw(st.sampled_from([257, 270, 300, 330]))
    size_mode = draw(st.sampled_from(['large', 'large', 'mixed', 'mixed', 'small']))
    if size_mode == 'large':
        sizes = [draw(st.integers(6, 12)) for _ in range(n_leaves)]
    elif size_mode == 'small':
        sizes = [draw(st.integers(1, 3)) for _ in range(n_leaves)]
    else:
        sizes = [draw(st.sampled_from([1, 2, 2, 3, 5, 8, 12])) for _ in range(n_leaves)]
    strength = draw(st.sampled_from(['strong', 'strong', 'strong', 'weak', 'absent']))
    pool = draw(st.sampled_from(['all', 'all', 'varying']))
    if long_list:
        quiet_kind = draw(st.sampled_from(['noise', 'const_same', 'all_zero']))
        kinds = [quiet_kind] * n_genes
        for pos in draw(st.lists(st.integers(0, n_genes - 1), min_size=3, max_size=14, unique=True)):
            kinds[pos] = draw(st.sampled_from(['signal', 'signal', 'signal', 'weak', 'partial', 'wide']))
        for pos in draw(st.lists(st.integers(256, n_genes - 1), min_size=1, max_size=4, unique=True)):
            kinds[pos] = 'signal'
    else:
        kinds = [draw(st.sampled_from(GENE_KINDS if pool == 'all' else VARYING_KINDS)) for _ in range(n_genes)]
    if strength == 'absent':
        kinds = [k if k not in ('signal', 'weak', 'partial', 'wide') else 'noise' for k in kinds]
    elif strength == 'weak':
        kinds = [k if k != 'signal' else 'weak' for k in kinds]
    dup = None
    if n_genes >= 6 and draw(st.integers(0, 3)) == 0:
        dup = [draw(st.integers(0, n_genes - 1)), draw(st.integers(0, n_genes - 1))]   # identical columns -> tied p
    # two anchor genes (high in the even- / odd-ranked clusters): a pair of clusters of different parity then has a
    # marker in each direction whatever the naming, which keeps most cases out of the "no marker in one direction" region
    anchors = []
    if draw(st.integers(0, 5)) > 0:
        anchors = draw(st.lists(st.integers(0, n_genes - 1), min_size=2, max_size=2, unique=True))
        kinds[anchors[0]] = 'anchor_even'
        kinds[anchors[1]] = 'anchor_odd'
        if dup and dup[1] in anchors:
            dup = None
    dups = None
    if not long_list and n_genes >= 8 and strength == 'strong' and draw(st.integers(0, 6)) == 0:
        # several identical copies of one signal gene: exactly tied p-values, and a significance threshold placed
        # (when the case is run) between the Holm products of the first and of the last copy - only the step-down
        # rule (running maximum over the more significant genes) keeps the later copies out
        free = [i for i in range(n_genes) if i not in anchors]
        if len(free) >= 4:
            picks = draw(st.lists(st.sampled_from(free), min_size=4, max_size=min(7, len(free)), unique=True))
            kinds[picks[0]] = 'signal'
            dups = {'src': picks[0], 'dsts': picks[1:]}
            dup = None
    genes = [f'g{i}' for i in draw(gen.shuffled(list(range(n_genes))))]
    # taxonomy: one level, or two levels with a drawn grouping of the leaves
    if draw(st.booleans()):
        n_par = draw(st.integers(1, min(3, n_leaves)))
        assign = list(range(n_par)) + [draw(st.integers(0, n_par - 1)) for _ in range(n_leaves - n_par)]
        tree = {'hierarchy': ['class', 'cluster'],
                'class': {f'p{j}': [names[i] for i in range(n_leaves) if assign[i] == j] for j in range(n_par)},
                'cluster': {nm: [] for nm in names}}
    else:
        tree = {'hierarchy': ['cluster'], 'cluster': {nm: [] for nm in names}}
    gl = None
    if draw(st.integers(0, 2)) == 0:
        if long_list:
            kp = draw(st.integers(1, 3))
            keep = [g for i, g in enumerate(genes) if i in anchors or (i * 7 + kp) % 4 > 0]
        else:
            keep = [g for i, g in enumerate(genes) if i in anchors or draw(st.integers(0, 3)) > 0]
        if not keep:
            keep = [genes[0]]
        gl = list(draw(gen.shuffled(keep + ['not_a_reference_gene'])))
    # the p-value-mask route is skipped in part of the cases that contain a cluster of fewer than two cells
    routes = ['std', 'pmask']
    if min(sizes) < 2 and draw(st.integers(0, 2)) > 0:
        routes = ['std']
    rename = None
    if draw(st.integers(0, 1)) == 0:
        rename = {'perm': list(draw(st.permutations(list(range(n_leaves))))),
                  'route': draw(st.sampled_from(routes))}
    return {
        'leaves': names,
        'rows': list(draw(st.permutations(list(range(n_leaves))))),
        'sizes': sizes,
        'genes': genes,
        'tree': tree,
        'p_th_rule': 'holm_band' if dups else None,
        'recipe': {'seed': draw(st.integers(0, 2**31 - 1)), 'kinds': kinds, 'dup': dup, 'dups': dups,
                   'sd': draw(st.sampled_from([0.1, 0.3, 0.3, 1.0])),
                   'off': 'low' if pool == 'varying' else draw(st.sampled_from(['zeros', 'zeros', 'low'])),
                   'p_on': draw(st.sampled_from([0.35, 0.35, 0.5]))},
        'thr': draw(thresholds()),
        'gene_list': gl,
        'n_valid': draw(st.integers(1, n_genes)),
        'exact': draw(st.sampled_from([False, False, True])),
        # two configurations per route; half of the time a contrast pair: one worker with a generous budget
        # against several workers with a budget at (or near) the enforced minimum
        'runs': [draw(run_cfg()), draw(run_cfg())] if draw(st.booleans()) else
                [{'n_processors': 1, 'max_gb': 20, 'n_per': draw(st.sampled_from([8, 10000]))},
                 {'n_processors': draw(st.integers(2, 3)), 'max_gb': draw(st.sampled_from([1e-7, 1e-6, 1e-5])),
                  'n_per': draw(st.sampled_from([8, 16]))}],
        'routes': routes,
        'rename': rename,
    }


# --------------------------------------------------------------------------- expansion
def expand_cells(spec):
    """-> {leaf: (n_cells x n_genes) float64 array of log2(CPM+1) values, columns in spec['genes'] order}"""
    if 'cells' in spec:
        return {l: np.array(spec['cells'][l], dtype=np.float64).reshape(len(spec['cells'][l]), len(spec['genes']))
                for l in spec['leaves']}
    rc = spec['recipe']
    rng = np.random.default_rng(rc['seed'])
    ng = len(spec['genes'])
    nl = len(spec['leaves'])
    sd = rc['sd']
    base = rng.random(ng) * 0.8                       # "off" level, below 1 CPM
    hi = 2.0 + rng.random((nl, ng)) * 7.0             # "on" level per cluster
    on = rng.random((nl, ng)) < rc['p_on']
    weak_delta = 0.4 + rng.random((nl, ng)) * 1.6     # on-level above the off level for weak genes
    const_val = rng.choice([0.0, 1.0, 3.0, 2.7, 6.5], size=(nl, ng))
    same_val = rng.choice([0.0, 1.0, 3.0, 2.7], size=ng)
    frac = rng.choice([0.3, 0.5, 0.7], size=(nl, ng))
    out = {}
    rank = {l: i for i, l in enumerate(sorted(spec['leaves']))}
    for li, leaf in enumerate(spec['leaves']):
        n = spec['sizes'][li]
        noise = rng.normal(0.0, 1.0, (n, ng))
        u = rng.random((n, ng))
        d = np.zeros((n, ng))
        for g, kind in enumerate(rc['kinds']):
            if kind == 'signal':
                if on[li, g]:
                    col = hi[li, g] + sd * noise[:, g]
                elif rc.get('off', 'zeros') == 'zeros':
                    col = np.where(u[:, g] < 0.8, 0.0, base[g] * u[:, g])
                else:
                    col = base[g] * (0.2 + 0.8 * u[:, g])
            elif kind == 'wide':
                # large spread inside a cluster: a 2-cell cluster then has a large variance / many degrees of freedom
                col = (9.0 + 0.7 * hi[li, g] + 2.5 * noise[:, g]) if on[li, g] else 0.3 * u[:, g]
            elif kind in ('anchor_even', 'anchor_odd'):
                is_on = (rank[leaf] % 2 == 0) == (kind == 'anchor_even')
                col = (4.0 + 0.4 * hi[li, g] + min(sd, 0.3) * noise[:, g]) if is_on else np.zeros(n)
            elif kind == 'weak':
                col = 0.9 + (weak_delta[li, g] if on[li, g] else 0.0) + sd * noise[:, g]
            elif kind == 'partial':
                expr = u[:, g] < (frac[li, g] if on[li, g] else 0.1)
                col = np.where(expr, hi[li, g] + sd * noise[:, g], 0.0)
            elif kind == 'noise':
                col = 1.0 + base[g] + sd * noise[:, g]
            elif kind == 'const_same':
                col = np.full(n, same_val[g])
            elif kind == 'const_diff':
                col = np.full(n, const_val[li, g])
            elif kind == 'all_zero':
                col = np.zeros(n)
            elif kind == 'grid':
                col = np.round((hi[li, g] if on[li, g] else 0.5) + 1.5 * noise[:, g]) * 0.5
            elif kind == 'one_exact':
                col = np.where(u[:, g] < 0.5, 1.0, (hi[li, g] if on[li, g] else 0.0))
            else:
                raise ValueError(kind)
            d[:, g] = np.minimum(np.abs(col), MAX_VALUE)
        if rc.get('dup'):
            d[:, rc['dup'][1]] = d[:, rc['dup'][0]]
        if rc.get('dups'):
            for j in rc['dups']['dsts']:
                d[:, j] = d[:, rc['dups']['src']]
        out[leaf] = d
    return out


def explicit(spec):
    out = json.loads(json.dumps(spec))
    if 'cells' not in out:
        cells = expand_cells(spec)
        out['cells'] = {l: cells[l].tolist() for l in spec['leaves']}
        out.pop('recipe', None)
    return out


def renamed(spec):
    """the same case with leaves renamed by the drawn permutation (new name of leaf i = old name of perm[i])"""
    perm = spec['rename']['perm']
    old = spec['leaves']
    mp = {old[i]: old[perm[i]] for i in range(len(old))}
    tree = {'hierarchy': list(spec['tree']['hierarchy'])}
    h = tree['hierarchy']
    for lv in h[:-1]:
        tree[lv] = {p: [mp[c] if lv == h[-2] else c for c in cs] for p, cs in spec['tree'][lv].items()}
    tree[h[-1]] = {mp[l]: [] for l in spec['tree'][h[-1]]}
    return mp, tree


def write_stats(path, spec, cells, name_map=None, tree=None):
    """hand-written precomputed-stats file (schema: docs/input_data_files/precomputed_stats_file.md)"""
    leaves = spec['leaves']
    nl, ng = len(leaves), len(spec['genes'])
    n_cells = np.zeros(nl, dtype=np.int64)
    arr = {k: np.zeros((nl, ng), dtype=np.float64 if k in ('sum', 'sumsq') else np.int64)
           for k in ('sum', 'sumsq', 'gt0', 'gt1', 'ge1')}
    c2r = {}
    for leaf, row in zip(leaves, spec['rows']):
        d = cells[leaf]
        n_cells[row] = d.shape[0]
        arr['sum'][row] = d.sum(axis=0)
        arr['sumsq'][row] = (d ** 2).sum(axis=0)
        arr['gt0'][row] = (d > 0).sum(axis=0)
        arr['gt1'][row] = (d > 1).sum(axis=0)
        arr['ge1'][row] = (d >= 1).sum(axis=0)
        c2r[name_map[leaf] if name_map else leaf] = int(row)
    with h5py.File(path, 'w') as f:
        f.create_dataset('taxonomy_tree', data=json.dumps(tree if tree is not None else spec['tree']).encode('utf-8'))
        f.create_dataset('col_names', data=json.dumps(spec['genes']).encode('utf-8'))
        f.create_dataset('cluster_to_row', data=json.dumps(c2r).encode('utf-8'))
        f.create_dataset('n_cells', data=n_cells)
        for k, v in arr.items():
            f.create_dataset(k, data=v)
    return path


# --------------------------------------------------------------------------- reference model
def holm(p):
    """Holm-Bonferroni step-down adjusted p-values (own implementation)"""
    p = np.asarray(p, dtype=float)
    m = len(p)
    order = np.argsort(p, kind='stable')
    adj = np.empty(m)
    run = 0.0
    for rank, i in enumerate(order):
        run = max(run, (m - rank) * p[i])
        adj[i] = min(1.0, run)
    return adj


def _margin(th):
    return REL * abs(th) + 1e-12


class PairModel(object):
    """everything the statement says about one unordered pair of clusters, from the cells"""

    def __init__(self, A, B, thr, allowed):
        """A, B: cell matrices; allowed: boolean mask of genes in the gene list (all True when none)"""
        self.nA, self.nB = A.shape[0], B.shape[0]
        ng = A.shape[1]
        self.ng = ng
        self.enough = bool(self.nA >= 2 and self.nB >= 2)
        self.allowed = allowed
        mA, mB = A.mean(axis=0), B.mean(axis=0)
        self.diff = mB - mA                              # > 0 : higher in the second cluster
        self.fold = np.abs(self.diff)
        pA = (A >= 1.0).sum(axis=0) / max(1, self.nA)
        pB = (B >= 1.0).sum(axis=0) / max(1, self.nB)
        self.q1 = np.maximum(pA, pB)
        self.qdiff = np.abs(pA - pB) / np.where(self.q1 > 0, self.q1, 1.0)
        t = thr
        # ---- penetrance / fold classification with margins
        def cls(x, th):
            m = _margin(th)
            return x > th + m, x < th - m               # clearly above, clearly below
        a1, b1 = cls(self.q1, t['q1_th'])
        a2, b2 = cls(self.qdiff, t['qdiff_th'])
        a3, b3 = cls(self.fold, t['log2_fold_th'])
        self.strict_pen = a1 & a2 & a3                   # clearly passes every strict threshold
        self.fails_strict = b1 | b2 | b3                 # clearly fails at least one strict threshold
        self.n_strict_failed = b1.astype(int) + b2.astype(int) + b3.astype(int)
        f1 = cls(self.q1, t['q1_min_th'])[1]
        f2 = cls(self.qdiff, t['qdiff_min_th'])[1]
        f3 = cls(self.fold, t['log2_fold_min_th'])[1]
        self.below_floor = f1 | f2 | f3                  # clearly below some floor
        self.pen_band = ~(self.strict_pen | self.fails_strict)
        # ---- Welch / Holm
        self.undefined = np.ones(ng, dtype=bool)
        self.p_lo = np.ones(ng)
        self.p_hi = np.ones(ng)
        self.p_raw = np.ones(ng)
        if self.enough:
            vA, vB = A.var(axis=0, ddof=1), B.var(axis=0, ddof=1)
            s = vA / self.nA + vB / self.nB
            # absolute uncertainty of a variance recovered from sum / sumsq in double precision
            dA = 4.0 * EPS * self.nA * (A ** 2).sum(axis=0) / (self.nA - 1)
            dB = 4.0 * EPS * self.nB * (B ** 2).sum(axis=0) / (self.nB - 1)
            ds = dA / self.nA + dB / self.nB
            self.undefined = ~(s > 0) | (ds > COND * s)
            with np.errstate(all='ignore'):
                import warnings
                with warnings.catch_warnings():
                    warnings.simplefilter('ignore')
                    p = ss.ttest_ind(A, B, equal_var=False, axis=0).pvalue
            p = np.asarray(p, dtype=float)
            self.undefined |= ~np.isfinite(p)
            p = np.where(np.isfinite(p), p, 1.0)
            self.p_raw = p
            first = np.where(self.undefined, 0.0, p)     # undefined genes ranked before everything
            last = np.where(self.undefined, 1.0, p)      # ... after everything
            self.p_lo = holm(first)
            self.p_hi = holm(last)
        pm = _margin(t['p_th']) + ng * 1e-15
        enough = np.full(ng, self.enough, dtype=bool)
        self.p_pass = enough & ~self.undefined & (self.p_hi < t['p_th'] - pm)      # surely significant
        self.p_fail = ~enough | (~self.undefined & (self.p_lo > t['p_th'] + pm))   # surely not
        self.p_band = ~self.undefined & ~self.p_pass & ~self.p_fail & enough
        # genes that MUST be recorded / MUST NOT be recorded
        self.must = self.p_pass & self.strict_pen & self.allowed
        self.must_not = self.p_fail | self.below_floor | ~self.allowed
        self.must_not_exact = self.must_not | self.fails_strict

    def clean(self):
        """True when no gene of the pair sits in a p-value band or has an undefined test, i.e. the
        p-value mask of the whole pair is decided (needed to compare relaxed markers between runs)"""
        return self.enough and not (self.undefined.any() or self.p_band.any())


def resolve_thresholds(spec, cells):
    """specs with p_th_rule == 'holm_band': the significance threshold is derived from the data - for the first pair
    in which the copied gene has a positive p-value p, p_th = p x (N - r0 - (K-1)/2), where r0 genes are more
    significant and K copies are tied: the first copy's Holm product lies above the threshold, the last one's below"""
    if spec.get('p_th_rule') != 'holm_band' or not spec['recipe'].get('dups'):
        return spec
    du = spec['recipe']['dups']
    K = 1 + len(du['dsts'])
    for a, b in itertools.combinations(sorted(spec['leaves']), 2):
        A, B = cells[a], cells[b]
        if A.shape[0] < 2 or B.shape[0] < 2:
            continue
        with np.errstate(all='ignore'):
            import warnings
            with warnings.catch_warnings():
                warnings.simplefilter('ignore')
                p = np.asarray(ss.ttest_ind(A, B, equal_var=False, axis=0).pvalue, dtype=float)
        p0 = p[du['src']]
        if not np.isfinite(p0) or not (p0 > 0):
            continue
        ng = A.shape[1]
        r0 = int(np.sum(np.where(np.isfinite(p), p, 1.0) < p0))
        p_th = p0 * (ng - r0 - (K - 1) / 2.0)
        if 1e-9 < p_th < 0.5:       # (the library rejects thresholds below 1e-11 by an explicit error)
            out = dict(spec)
            out['thr'] = dict(spec['thr'], p_th=float(p_th))
            return out
    return spec


def pair_models(spec, cells=None):
    cells = cells if cells is not None else expand_cells(spec)
    genes = spec['genes']
    if spec.get('gene_list') is None:
        allowed = np.ones(len(genes), dtype=bool)
    else:
        gs = set(spec['gene_list'])
        allowed = np.array([g in gs for g in genes])
    out = {}
    for a, b in itertools.combinations(sorted(spec['leaves']), 2):
        out[(a, b)] = PairModel(cells[a], cells[b], spec['thr'], allowed)
    return out


def direction_census(models, name_of=None):
    """number of (pair, gene) that must be recorded as up / down when pairs are ordered alphabetically
    by the names of the run (name_of: original name -> name in the run)"""
    up = down = 0
    for (a, b), m in models.items():
        hi_b = int((m.must & (m.diff > 1e-9)).sum())
        hi_a = int((m.must & (m.diff < -1e-9)).sum())
        if name_of is not None and name_of[a] > name_of[b]:
            hi_a, hi_b = hi_b, hi_a
        up += hi_b
        down += hi_a
    return up, down


# --------------------------------------------------------------------------- reading the output
def read_markers(path, genes_expected=None):
    """-> dict with the raw tables and per-pair (up set, down set) keyed by (node1, node2) as ordered in the file"""
    with h5py.File(path, 'r') as f:
        p2i = json.loads(f['pair_to_idx'][()].decode('utf-8'))
        gene_names = json.loads(f['gene_names'][()].decode('utf-8'))
        n_pairs = int(f['n_pairs'][()])
        bp = {k: f['sparse_by_pair'][k][()].astype(np.int64) for k in f['sparse_by_pair']}
        bg = {k: f['sparse_by_gene'][k][()].astype(np.int64) for k in f['sparse_by_gene']}
    return {'pair_to_idx': p2i, 'gene_names': gene_names, 'n_pairs': n_pairs, 'by_pair': bp, 'by_gene': bg}
