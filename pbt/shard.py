import sys
from pbt.core import shard_main
if __name__ == '__main__':
    shard_main(sys.argv[1:])
