"""C08 - marker genes are reconciled with the query by name, with ancestor fallback."""
import copy
import json
import os

import hypothesis.strategies as st

from pbt import gen, mapping, materialize, treemodel, refmodel
from pbt.core import Case, Violation, sandbox
from pbt.props import common
from pbt.props.c02 import parse_trace

ID = 'C08'
LEVEL = 'exploration'
TECHNIQUE = 'property-based testing (Hypothesis): reported and traced per-node gene lists of run_mapping vs. a reference model of the fallback rule written from the statement; generated error paths must raise'
RULE = ('cases = generated marker tables (missing parents, empty lists, duplicates, genes absent from the query), query gene sets/orders, '
        'min_markers 1-6, flatten/drop, plus three error-path variants (root unusable, marker unknown to the reference, no shared marker); '
        'non-trivial = at least one voting parent needed an ancestor or the root, or an error path; distinct = distinct spec hash')
RULE += '; queries with 240-300 extra genes, index arrays of other integer widths'
ASSUMPTIONS = ['root-unusable error path is only asserted when the root has >=2 children in the tree used for voting']


def budget(tier):
    return {'quick': 1600, 'thorough': 12000}[tier]


@st.composite
def strategy_(draw):
    spec = draw(gen.map_cases(max_cells=4, max_iter=2, pooled_markers=True, min_levels=draw(st.sampled_from([1, 2, 3]))))
    variant = draw(st.sampled_from(['ok'] * 7 + ['root_unusable', 'unknown_to_reference', 'no_shared_marker']))
    spec = copy.deepcopy(spec)
    if draw(st.booleans()):
        # a query that lacks a good part of the reference genes (a reduced gene panel): the fallback rule
        # is then decided by the genes PRESENT in the query, not by the length of the lists
        keep_root = spec['markers']['None'][0]
        qg = spec['query']['genes']
        flags = draw(st.lists(st.integers(0, 9), min_size=len(qg), max_size=len(qg)))
        spec['query']['genes'] = [g for g, f in zip(qg, flags) if g == keep_root or f < 5]
    spec['variant'] = variant
    vt = treemodel.Tree(refmodel.voting_tree(spec))
    if variant == 'root_unusable':
        if len(vt.children(None)) < 2:
            spec['variant'] = 'ok'
        else:
            if spec['cfg']['flatten']:
                # under flatten the root's list is the union of all lists
                allm = set()
                for v in spec['markers'].values():
                    allm |= set(v)
                spec['query']['genes'] = [g for g in spec['query']['genes'] if g not in allm] or ['x_only']
            else:
                mode = draw(st.sampled_from(['absent_from_query', 'missing_key', 'empty_list']))
                if mode == 'absent_from_query':
                    root = set(spec['markers']['None'])
                    spec['query']['genes'] = [g for g in spec['query']['genes'] if g not in root] or ['x_only']
                elif mode == 'missing_key':
                    spec['markers'].pop('None')
                else:
                    spec['markers']['None'] = []
    elif variant == 'unknown_to_reference':
        keys = sorted(spec['markers'].keys())
        k = keys[draw(st.integers(0, len(keys) - 1))]
        spec['markers'][k] = list(spec['markers'][k]) + ['zz_unknown_gene']
        if draw(st.booleans()):
            spec['query']['genes'] = list(spec['query']['genes']) + ['zz_unknown_gene']
    elif variant == 'no_shared_marker':
        allm = set()
        for v in spec['markers'].values():
            allm |= set(v)
        spec['query']['genes'] = [g for g in spec['query']['genes'] if g not in allm] or ['x_only']
    return spec


def strategy(tier):
    return strategy_()


KNOWN_TRIGGERS = common.MAP_KNOWN_TRIGGERS


def exclude(spec):
    return common.map_excluded(spec, ID)


def sample_view(spec):
    v = common.map_sample_view(spec)
    v['variant'] = spec.get('variant')
    v['markers'] = spec['markers']
    v['query_genes'] = spec['query']['genes']
    return v


def check(spec):
    variant = spec.get('variant', 'ok')
    with sandbox() as d:
        paths = materialize.write_map_case(d, spec)
        o = mapping.run(d, paths, spec['cfg'], trace=True)
        csv_exists = os.path.exists(o.config['csv_result_path'])
    if variant != 'ok':
        if o.ok:
            raise Violation('error_path_did_not_raise', {'variant': variant})
        if o.out is not None and 'results' in o.out:
            raise Violation('error_path_wrote_results', {'variant': variant})
        if csv_exists:
            raise Violation('error_path_wrote_csv', {'variant': variant})
        return Case(True, ['error_' + variant])
    if not o.ok:
        raise Violation('run_raised', f'{type(o.error).__name__}: {str(o.error)[:400]}')
    classes = check_markers(spec, o.out, o.trace)
    nontrivial = 'fallback_ancestor' in classes or 'fallback_root' in classes
    return Case(nontrivial, classes)


def check_markers(spec, out, trace):
    vt = treemodel.Tree(refmodel.voting_tree(spec))
    want, how = refmodel.model_marker_genes(spec)
    got = out['marker_genes']
    want_keys = set(want.keys())
    if set(got.keys()) != want_keys:
        raise Violation('marker_keys', {'got': sorted(got.keys()), 'want': sorted(want_keys)})
    Q = set(spec['query']['genes'])
    R = set(spec['ref']['genes'])
    for k in sorted(want_keys):
        g = got[k]
        if len(set(g)) != len(g):
            raise Violation('reported_duplicates', {'parent': k, 'genes': g})
        if how[k] == 'single_child':
            if g:
                raise Violation('single_child_parent_has_markers', {'parent': k, 'genes': g})
            continue
        if k == 'None' and len(vt.children(None)) < 2:
            # root with a single child needs no markers; any subset of its usable list is fine
            if not set(g) <= (set(spec['markers'].get('None', [])) | set().union(*[set(v) for v in spec['markers'].values()])) & Q:
                raise Violation('root_single_child_foreign_genes', {'genes': g})
            continue
        if set(g) != want[k]:
            raise Violation('marker_set', {'parent': k, 'got': sorted(g), 'want': sorted(want[k]), 'how': how[k],
                                           'min_markers': spec['cfg']['min_markers']})
        if not set(g) <= Q or not set(g) <= R:
            raise Violation('marker_not_in_query_or_reference', {'parent': k})
    # traced gene lists (what was actually used) equal the reported ones, in order
    cell2chunk, visits = parse_trace(trace)
    n_vis = 0
    for (chunk, pj), v in visits.items():
        p = json.loads(pj)
        k = 'None' if p is None else f'{p[0]}/{p[1]}'
        n_vis += 1
        if list(v['genes']) != list(got.get(k, [])):
            raise Violation('used_vs_reported_genes', {'parent': k, 'used': v['genes'], 'reported': got.get(k)})
    classes = ['fallback_' + h for h in set(how.values())]
    if n_vis:
        classes.append('trace_checked')
    if spec['cfg']['flatten']:
        classes.append('flatten')
    if spec['cfg'].get('drop_level') in spec['tree']['hierarchy'][:-1]:
        classes.append('drop')
    return classes
