"""helpers shared by the mapping-based property modules"""
from pbt import treemodel, materialize
import numpy as np


def _root_single_child(spec):
    cfg = spec['cfg']
    t = spec['tree']
    h = t['hierarchy']
    if cfg.get('flatten'):
        return len(t[h[-1]]) == 1
    if cfg.get('drop_level') == h[0] and len(h) > 1:
        return len(t[h[1]]) == 1
    return len(t[h[0]]) == 1


def _query_no_nonzero_raw(spec):
    if spec['cfg'].get('normalization', 'raw') != 'raw':
        return False
    if spec['query'].get('enc') == 'dense':
        return False
    x = materialize.expand_query(spec['query'])
    return int((x != 0).sum()) == 0


MAP_KNOWN_TRIGGERS = {
    'root_has_single_child': _root_single_child,
    'raw_sparse_query_without_nonzero': _query_no_nonzero_raw,
}


def map_excluded(spec, pid):
    from pbt.core import known_for
    for k in known_for(pid):
        pred = MAP_KNOWN_TRIGGERS.get(k['trigger'])
        if pred is not None and pred(spec):
            return True
    return False


def map_sample_view(spec):
    """compact rendering of a map case for the evidence file"""
    q = spec['query']
    return {
        'tree': {k: v for k, v in spec['tree'].items() if k not in ('name_mapper', 'hierarchy_mapper')},
        'n_ref_genes': len(spec['ref']['genes']), 'ref_family': spec['ref'].get('family'),
        'markers': {k: len(v) for k, v in spec['markers'].items()},
        'query': {'n_cells': len(q['cells']), 'n_genes': len(q['genes']), 'dtype': q['dtype'], 'enc': q['enc'],
                  'index_dtype': q.get('idx_dtype'), 'seed': q.get('seed')},
        'cfg': spec['cfg'],
    }
