"""C15 - JSON, CSV and HDF5 outputs tell the same story and round-trip."""
import csv
import io
import json
import os

import hypothesis.strategies as st

from pbt import gen, mapping, materialize, treemodel, refmodel
from pbt.core import Case, Violation, sandbox, quiet
from pbt.props import common

ID = 'C15'
LEVEL = 'exploration'
TECHNIQUE = 'property-based testing (Hypothesis): the three output files of one generated run_mapping run are cross-checked - CSV parsed with the csv module against a harness rendering of the JSON through the name tables, HDF5 read back (round trip) against the JSON, embedded taxonomy/markers against the inputs'
RULE = ('cases = generated mapping runs with name tables present/absent, node names needing CSV quoting, 0..4 runners-up, flatten/drop, single-iteration runs; '
        'non-trivial = some record has a runner-up list of length >=1 AND (the taxonomy has a name table OR a level is inferred); distinct = distinct spec hash')
RULE += '; additions: taxonomies of 130-300 nodes per level, queries of 11-36 cells, level names containing label / name / alias; the CSV rows are compared with the query order and the embedded marker table with the C08 reference model'
ASSUMPTIONS = ['timestamps, durations and the metadata blocks are not compared']


def budget(tier):
    return {'quick': 640, 'thorough': 8000}[tier]


@st.composite
def strategy_(draw):
    if draw(st.integers(0, 7)) == 0:
        # a wide taxonomy (more than 128 nodes at a level, as real taxonomies have), many runners-up
        tree = draw(gen.trees(max_levels=2, max_leaves=300, min_leaves=130, mappers='often'))
        spec = dict(draw(gen.map_cases(tree=tree, max_cells=6, allow_flatten=False, allow_drop=False)))
        spec['cfg'] = dict(spec['cfg'], n_runners_up=draw(st.integers(2, 4)), bootstrap_iteration=12,
                           bootstrap_factor=draw(st.sampled_from([0.33, 0.5])), bootstrap_factor_lookup=None)
        return spec
    return draw(gen.map_cases(max_cells=8, mappers='often'))


def strategy(tier):
    return strategy_()


KNOWN_TRIGGERS = common.MAP_KNOWN_TRIGGERS


def exclude(spec):
    return common.map_excluded(spec, ID)


def sample_view(spec):
    v = common.map_sample_view(spec)
    v['name_mapper'] = spec['tree'].get('name_mapper')
    v['hierarchy_mapper'] = spec['tree'].get('hierarchy_mapper')
    return v


def label_to(tree, level, label, key):
    nm = tree.get('name_mapper')
    if not isinstance(nm, dict):
        return label
    return nm.get(level, {}).get(label, {}).get(key, label)


def level_to(tree, level):
    hm = tree.get('hierarchy_mapper')
    if not isinstance(hm, dict):
        return level
    return hm.get(level, level)


def check(spec):
    from cell_type_mapper.utils.output_utils import hdf5_to_blob
    import cell_type_mapper
    cfg = spec['cfg']
    with sandbox() as d:
        paths = materialize.write_map_case(d, spec)
        o = mapping.run(d, paths, cfg)
        if not o.ok:
            raise Violation('run_raised', f'{type(o.error).__name__}: {str(o.error)[:400]}')
        out = o.out
        csv_text = open(o.config['csv_result_path'], newline='').read()
        with quiet():
            blob = hdf5_to_blob(o.config['hdf5_result_path'])
        json_name = os.path.basename(o.config['extended_result_path'])
    tree = spec['tree']
    h = tree['hierarchy']
    res = out['results']
    # ---------------- CSV
    lines = csv_text.split('\n')
    comments = []
    while lines and lines[0].startswith('#'):
        comments.append(lines.pop(0))
    readable = [level_to(tree, lv) for lv in h]
    want_comments = [f'# metadata = {json_name}', f'# taxonomy hierarchy = {json.dumps(h)}']
    if readable != h:
        want_comments.append(f'# readable taxonomy hierarchy = {json.dumps(readable)}')
    if comments[:len(want_comments)] != want_comments:
        raise Violation('csv_comment_lines', {'got': comments, 'want': want_comments})
    if len(comments) != len(want_comments) + 1 or f'version: {cell_type_mapper.__version__}' not in comments[-1]:
        raise Violation('csv_version_line', {'got': comments})
    algo = "'correlation'" if cfg['flatten'] else "'hierarchical'"
    if algo not in comments[-1]:
        raise Violation('csv_algorithm', {'got': comments[-1]})
    rows = list(csv.reader(io.StringIO('\n'.join(lines))))
    rows = [r for r in rows if r]
    header, body = rows[0], rows[1:]
    conf_key = 'avg_correlation' if cfg['bootstrap_iteration'] == 1 else 'bootstrapping_probability'
    conf_label = 'correlation_coefficient' if cfg['bootstrap_iteration'] == 1 else 'bootstrapping_probability'
    want_header = ['cell_id']
    for lv, rl in zip(h, readable):
        want_header += [f'{rl}_label', f'{rl}_name']
        if lv == h[-1]:
            want_header.append(f'{rl}_alias')
        want_header.append(f'{rl}_{conf_label}')
    if header != want_header:
        raise Violation('csv_header', {'got': header, 'want': want_header})
    if len(body) != len(res):
        raise Violation('csv_row_count', {'rows': len(body), 'cells': len(res)})
    want_ids = [str(c) for c in spec['query']['cells']]
    if [row[0] for row in body] != want_ids:
        raise Violation('csv_rows_not_in_query_order', {'got': [row[0] for row in body][:40], 'want': want_ids[:40]})
    for row, r in zip(body, res):
        want = [r['cell_id']]
        for lv in h:
            a = r[lv]['assignment']
            want += [a, label_to(tree, lv, a, 'name')]
            if lv == h[-1]:
                want.append(label_to(tree, lv, a, 'alias'))
            want.append('%.4f' % r[lv][conf_key])
        if row != want:
            raise Violation('csv_row', {'got': row, 'want': want})
    # ---------------- HDF5 round trip
    bres = blob.get('results')
    if bres is None or len(bres) != len(res):
        raise Violation('hdf5_result_count', {'hdf5': None if bres is None else len(bres), 'json': len(res)})
    n_ru = 0
    for a, b in zip(res, bres):
        if a['cell_id'] != b['cell_id']:
            raise Violation('hdf5_cell_id', {'json': a['cell_id'], 'hdf5': b['cell_id']})
        if set(a.keys()) != set(b.keys()):
            raise Violation('hdf5_levels', {'json': sorted(a), 'hdf5': sorted(b)})
        for lv in h:
            ja, hb = a[lv], b[lv]
            for k in ('assignment', 'bootstrapping_probability', 'avg_correlation', 'aggregate_probability'):
                if ja[k] != hb[k]:
                    raise Violation('hdf5_field', {'cell': a['cell_id'], 'level': lv, 'key': k, 'json': ja[k], 'hdf5': hb[k]})
            if bool(ja['directly_assigned']) != bool(hb['directly_assigned']):
                raise Violation('hdf5_directly_assigned', {'cell': a['cell_id'], 'level': lv})
            for k in ('runner_up_assignment', 'runner_up_probability', 'runner_up_correlation'):
                if list(ja.get(k, [])) != list(hb.get(k, [])):
                    raise Violation('hdf5_runner_up', {'cell': a['cell_id'], 'level': lv, 'key': k, 'json': ja.get(k), 'hdf5': hb.get(k)})
            n_ru += len(ja.get('runner_up_assignment', []))
    # ---------------- embedded taxonomy and markers
    for name, src in (('json', out), ('hdf5', blob)):
        emb = src.get('taxonomy_tree')
        if emb is None:
            raise Violation('taxonomy_missing', {'src': name})
        if emb['hierarchy'] != h:
            raise Violation('taxonomy_hierarchy', {'src': name})
        for lv in h[:-1]:
            if {k: list(v) for k, v in emb[lv].items()} != {k: list(v) for k, v in tree[lv].items()}:
                raise Violation('taxonomy_level', {'src': name, 'level': lv})
        if {k: list(v) for k, v in emb[h[-1]].items()} != {k: [] for k in tree[h[-1]]}:
            raise Violation('taxonomy_leaves', {'src': name, 'got': emb[h[-1]]})
        for k in ('name_mapper', 'hierarchy_mapper'):
            if emb.get(k) != tree.get(k):
                raise Violation('taxonomy_name_tables', {'src': name, 'key': k})
        vt = treemodel.Tree(refmodel.voting_tree(spec))
        want_keys = {'None'} | {f'{p[0]}/{p[1]}' for p in vt.all_parents()[1:]}
        if set(src['marker_genes'].keys()) != want_keys:
            raise Violation('marker_genes_keys', {'src': name, 'got': sorted(src['marker_genes']), 'want': sorted(want_keys)})
    if out['marker_genes'] != blob['marker_genes']:
        raise Violation('marker_genes_json_vs_hdf5', {})
    # "the embedded marker table lists what was used": the genes usable at each voting parent by the C08 reference
    # model (own list, ancestor / root fallback, restricted to the query); nothing at parents that hold no election
    want_used, how = refmodel.model_marker_genes(spec)
    for k, want_set in want_used.items():
        got_list = list(out['marker_genes'].get(k, []))
        if how[k] == 'single_child':
            if got_list:
                raise Violation('embedded_markers_at_parent_without_election', {'parent': k, 'genes': got_list[:10]})
        elif set(got_list) != set(want_set):
            raise Violation('embedded_markers_not_what_was_used', {'parent': k, 'got': sorted(got_list)[:20], 'want': sorted(want_set)[:20]})
    inferred = cfg['flatten'] and len(h) > 1 or cfg.get('drop_level') in h[:-1]
    has_names = bool(tree.get('name_mapper'))
    classes = []
    if n_ru:
        classes.append('has_runner_up')
    if has_names:
        classes.append('name_table')
    if 'hierarchy_mapper' in tree and readable != h:
        classes.append('readable_hierarchy')
    if inferred:
        classes.append('inferred_level')
    if max(len(tree[lv]) for lv in h) > 128:
        classes.append('level_with_more_than_128_nodes')
    if cfg['bootstrap_iteration'] == 1:
        classes.append('single_iteration')
    all_names = [n for lv in h for n in tree[lv]] + [str(x) for lv in (tree.get('name_mapper') or {}).values() for e in lv.values() for x in e.values()]
    if any(c in n for n in all_names for c in [',', '"', "'"]):
        classes.append('needs_quoting')
    return Case(n_ru > 0 and (has_names or inferred), classes)
