"""C11 - reference markers are sound and complete for the stated criteria."""
import itertools
import json

import numpy as np

from pbt import gen_c11 as G
from pbt.core import Case, Violation, sandbox, quiet, known_for

ID = 'C11'
LEVEL = 'exploration'
TECHNIQUE = ('property-based testing (Hypothesis): reference-marker discovery (direct route and p-value-mask route) on hand-synthesised '
             'statistics files vs. an independent Welch/Holm/penetrance reference model computed from the generating cells '
             '(scipy.stats.ttest_ind + own Holm), plus run-to-run relations (worker count / memory budget, cluster renaming) and '
             'a table-transposition census')
RULE = ('cases = generated per-cluster log2(CPM+1) cell matrices (2-8 clusters of 1-12 cells and 4-24 genes, thorough: up to 10 clusters / 32 genes; genes of drawn kinds: strong/weak/partial/no signal, '
        'zero-variance, all-zero, gridded ties, duplicated columns, values exactly at 1 CPM), thresholds with every strict value above its floor, '
        'optional gene list, n_valid, exact_penetrance, two run configurations (1-3 workers, max_gb 1e-7..20, mask rows-at-a-time) and an optional '
        'cluster renaming; every (pair, gene) of every run is compared with the model; '
        'non-trivial = some pair has >=1 gene that must be recorded and >=1 gene that fails exactly one criterion; distinct = distinct spec hash')
RULE += '; additions: gene lists of 257-330 genes with few markers, some beyond index 255'
ASSUMPTIONS = [
    'penetrance P = fraction of cells with log2(CPM+1) >= 1 (the ge1 array: precomputed_stats_file.md says gt1/gt0 are not used for marker selection)',
    '"up" for the pair stored as pair_to_idx[level][node1][node2] means mean(node2) > mean(node1) (score_differential_genes docstring)',
    'every threshold comparison keeps a 1e-6 relative margin; genes inside a margin are counted as band and not asserted',
    'a gene whose Welch statistic is undefined or ill-conditioned when recomputed from sum/sumsq (relative uncertainty of var1/n1+var2/n2 above 1e-8) '
    'is not asserted on the p-value criterion; Holm-adjusted p-values of the other genes are bracketed by ranking such genes all first / all last',
    'n_valid <= number of genes; gene lists share >=1 gene with the reference; known-finding trigger regions are excluded by construction and counted',
]


def budget(tier):
    return {'quick': 288, 'thorough': 3200}[tier]


def strategy(tier):
    if tier == 'thorough':
        return G.cases(max_leaves=10, max_genes=32)
    return G.cases()


# ----------------------------------------------------------------- known / pending defects
def _n_pairs(spec):
    n = len(spec['leaves'])
    return n * (n - 1) // 2


def _mask_rows(n_per):
    n_per -= n_per % 8
    return max(8, n_per)


def _markers_rows(spec, cfg):
    """pairs per worker in the mask->marker step (p_value_markers.create_sparse_by_pair_marker_file_from_p_mask)"""
    n_pairs = _n_pairs(spec)
    n_per = int(np.round(0.5 * cfg['max_gb'] * 1024 ** 3 / (len(spec['genes']) * 20)))
    n_per = min(n_per, n_pairs // (2 * cfg['n_processors']))
    if n_per == 0:
        n_per = 10000
    return _mask_rows(n_per)


def trig_single_pair_worker(spec):
    """D6: some worker of the p-value-mask route receives exactly one pair"""
    n_pairs = _n_pairs(spec)
    if 'pmask' not in spec.get('routes', ['std', 'pmask']):
        return False
    for cfg in spec['runs']:
        if n_pairs % _mask_rows(cfg['n_per']) == 1 or n_pairs % _markers_rows(spec, cfg) == 1:
            return True
    return False


def trig_direction_without_marker(spec):
    """D5: it is not certain that both directions have at least one marker somewhere
    (certain = the reference model has a must-be-recorded gene in each direction, in the original and the renamed case)"""
    models = G.pair_models(spec)
    up, down = G.direction_census(models)
    if up == 0 or down == 0:
        return True
    if spec.get('rename'):
        up, down = G.direction_census(models, G.renamed(spec)[0])
        if up == 0 or down == 0:
            return True
    return False


def trig_pmask_single_cell_cluster(spec):
    """D8: the p-value-mask route is run on a case where a pair contains a cluster of fewer than two cells and
    some gene of that pair is in the gene list and on or above every floor (so it could be recorded at all)"""
    if 'pmask' not in spec.get('routes', ['std', 'pmask']):
        return False
    if min(spec['sizes']) >= 2:
        return False
    for m in G.pair_models(spec).values():
        if not m.enough and bool((m.allowed & ~m.below_floor).any()):
            return True
    return False


KNOWN_TRIGGERS = {
    'direction_without_marker': trig_direction_without_marker,
    'single_pair_worker': trig_single_pair_worker,
    'pmask_single_cell_cluster': trig_pmask_single_cell_cluster,
}

# defects confirmed by this check whose proposed repair (proposed_fixes/C11_*.diff) is not yet in /repo:
# their trigger regions are excluded by construction (and counted) so that the search continues behind them.
# Remove a name once the repair is applied; the regression files then guard it.
PENDING_REPAIR = ()   # D5/D6/D8 repairs are applied in /repo (see known_findings.json, 'fixed')


def exclude(spec):
    import os
    if os.environ.get('VERIF_C11_NO_EXCLUDE'):
        return False
    names = set(PENDING_REPAIR) | {k['trigger'] for k in known_for(ID)}
    for n in names:
        pred = KNOWN_TRIGGERS.get(n)
        if pred is not None and pred(spec):
            return True
    return False


def sample_view(spec):
    return {'leaves': spec['leaves'], 'sizes': spec['sizes'], 'n_genes': len(spec['genes']),
            'kinds': (spec.get('recipe') or {}).get('kinds'), 'thr': spec['thr'], 'n_valid': spec['n_valid'],
            'exact': spec['exact'], 'gene_list': None if spec['gene_list'] is None else len(spec['gene_list']),
            'runs': spec['runs'], 'rename': spec.get('rename'), 'tree_levels': len(spec['tree']['hierarchy'])}


# ----------------------------------------------------------------- running the code under test
def run_std(d, stats, tree_data, spec, cfg, tag):
    from cell_type_mapper.taxonomy.taxonomy_tree import TaxonomyTree
    from cell_type_mapper.diff_exp.markers import find_markers_for_all_taxonomy_pairs
    out = d / f'ref_{tag}.h5'
    tmp = d / f'tmp_{tag}'
    tmp.mkdir()
    t = spec['thr']
    with quiet():
        find_markers_for_all_taxonomy_pairs(
            precomputed_stats_path=stats, taxonomy_tree=TaxonomyTree(data=tree_data), output_path=out,
            p_th=t['p_th'], q1_th=t['q1_th'], qdiff_th=t['qdiff_th'], log2_fold_th=t['log2_fold_th'],
            q1_min_th=t['q1_min_th'], qdiff_min_th=t['qdiff_min_th'], log2_fold_min_th=t['log2_fold_min_th'],
            n_processors=cfg['n_processors'], tmp_dir=str(tmp), max_gb=cfg['max_gb'],
            exact_penetrance=spec['exact'], n_valid=spec['n_valid'], gene_list=spec['gene_list'])
    return G.read_markers(out)


def run_pmask(d, stats, spec, cfg, tag):
    from cell_type_mapper.diff_exp.p_value_mask import create_p_value_mask_file
    from cell_type_mapper.diff_exp.p_value_markers import find_markers_for_all_taxonomy_pairs_from_p_mask
    mask = d / f'pmask_{tag}.h5'
    out = d / f'refp_{tag}.h5'
    tmp = d / f'tmpp_{tag}'
    tmp.mkdir()
    t = spec['thr']
    with quiet():
        create_p_value_mask_file(
            precomputed_stats_path=stats, dst_path=mask,
            p_th=t['p_th'], q1_th=t['q1_th'], q1_min_th=t['q1_min_th'], qdiff_th=t['qdiff_th'],
            qdiff_min_th=t['qdiff_min_th'], log2_fold_th=t['log2_fold_th'], log2_fold_min_th=t['log2_fold_min_th'],
            n_processors=cfg['n_processors'], tmp_dir=str(tmp), n_per=cfg['n_per'])
        find_markers_for_all_taxonomy_pairs_from_p_mask(
            precomputed_stats_path=stats, p_value_mask_path=mask, output_path=out,
            n_processors=cfg['n_processors'], tmp_dir=str(tmp), max_gb=cfg['max_gb'],
            n_valid=spec['n_valid'], gene_list=spec['gene_list'])
    return G.read_markers(out)


def _guard(fn, clause, *a):
    try:
        return fn(*a)
    except Violation:
        raise
    except Exception as e:  # the library raising on an input of the stated domain is an observation
        raise Violation(clause, f'{type(e).__name__}: {str(e)[:500]}')


# ----------------------------------------------------------------- table checks
def _csr_rows(indptr, indices, n_rows, what):
    if len(indptr) != n_rows + 1:
        raise Violation('table_shape', {'table': what, 'len_indptr': int(len(indptr)), 'rows': n_rows})
    if len(indptr) and (indptr[0] != 0 or indptr[-1] != len(indices) or np.any(np.diff(indptr) < 0)):
        raise Violation('table_shape', {'table': what, 'indptr': indptr.tolist()[:40], 'n_indices': int(len(indices))})
    return [indices[indptr[i]:indptr[i + 1]] for i in range(n_rows)]


def decode(res, spec, leaves, tag):
    """structure checks (pair list, transposes, disjointness) -> {frozenset pair: (node1, node2, up set, down set)}"""
    ng = len(spec['genes'])
    if res['gene_names'] != spec['genes']:
        raise Violation('gene_names', {'run': tag, 'got': res['gene_names'][:10], 'want': spec['genes'][:10]})
    p2i = res['pair_to_idx']
    leaf_level = spec['tree']['hierarchy'][-1]
    if set(p2i.keys()) != {leaf_level}:
        raise Violation('pair_levels', {'run': tag, 'levels': sorted(p2i.keys())})
    idx_of = {}
    for n1 in p2i[leaf_level]:
        for n2, i in p2i[leaf_level][n1].items():
            key = frozenset((n1, n2))
            if key in idx_of or n1 == n2:
                raise Violation('pair_listed_twice', {'run': tag, 'pair': [n1, n2]})
            idx_of[key] = (n1, n2, int(i))
    want = {frozenset(p) for p in itertools.combinations(leaves, 2)}
    if set(idx_of.keys()) != want:
        raise Violation('pair_list', {'run': tag, 'missing': sorted(map(sorted, want - set(idx_of)))[:5],
                                      'extra': sorted(map(sorted, set(idx_of) - want))[:5]})
    n_pairs = len(want)
    if sorted(v[2] for v in idx_of.values()) != list(range(n_pairs)) or res['n_pairs'] != n_pairs:
        raise Violation('pair_index', {'run': tag, 'idx': sorted(v[2] for v in idx_of.values()), 'n_pairs': res['n_pairs']})
    bp, bg = res['by_pair'], res['by_gene']
    rows = {}
    for dr in ('up', 'down'):
        pr = _csr_rows(bp[f'{dr}_pair_idx'], bp[f'{dr}_gene_idx'], n_pairs, f'sparse_by_pair/{dr}')
        gr = _csr_rows(bg[f'{dr}_gene_idx'], bg[f'{dr}_pair_idx'], ng, f'sparse_by_gene/{dr}')
        a = sorted((i, int(g)) for i, r in enumerate(pr) for g in r)
        b = sorted((int(i), g) for g, r in enumerate(gr) for i in r)
        if any(g < 0 or g >= ng for _, g in a) or any(i < 0 or i >= n_pairs for i, _ in b):
            raise Violation('table_index_range', {'run': tag, 'direction': dr})
        if len(set(a)) != len(a) or len(set(b)) != len(b):
            raise Violation('table_duplicates', {'run': tag, 'direction': dr})
        if a != b:
            raise Violation('tables_not_transposes', {'run': tag, 'direction': dr,
                                                     'only_by_pair': sorted(set(a) - set(b))[:6],
                                                     'only_by_gene': sorted(set(b) - set(a))[:6]})
        rows[dr] = pr
    out = {}
    for key, (n1, n2, i) in idx_of.items():
        up = set(int(g) for g in rows['up'][i])
        dn = set(int(g) for g in rows['down'][i])
        if up & dn:
            raise Violation('gene_both_up_and_down', {'run': tag, 'pair': [n1, n2], 'genes': sorted(up & dn)[:6]})
        out[key] = (n1, n2, up, dn)
    return out


def same_tables(r1, r2, tag):
    for grp in ('by_pair', 'by_gene'):
        for k in r1[grp]:
            if k not in r2[grp] or not np.array_equal(r1[grp][k], r2[grp][k]):
                raise Violation('output_depends_on_workers_or_budget', {'runs': tag, 'table': f'{grp}/{k}',
                                                                        'a': r1[grp][k].tolist()[:30],
                                                                        'b': r2[grp].get(k, np.zeros(0)).tolist()[:30]})
    if r1['pair_to_idx'] != r2['pair_to_idx']:
        raise Violation('output_depends_on_workers_or_budget', {'runs': tag, 'table': 'pair_to_idx'})


# ----------------------------------------------------------------- the oracle
def judge(spec, dec, models, route, tag, name_of, stats):
    """dec: decoded run; models keyed by sorted (a, b) of ORIGINAL names; name_of: original name -> name in this run"""
    genes = spec['genes']
    exact = spec['exact'] and route == 'std'
    for (a, b), m in models.items():
        n1, n2, up, dn = dec[frozenset((name_of[a], name_of[b]))]
        rec = up | dn
        swapped = (n1 != name_of[a])                 # the file lists the pair as (b, a)
        ctx = {'run': tag, 'pair': [n1, n2], 'n_cells': [m.nB, m.nA] if swapped else [m.nA, m.nB]}
        if not m.enough and rec:
            raise Violation('recorded_with_fewer_than_two_cells' + ('' if route == 'std' else '_pmask'),
                            dict(ctx, genes=[genes[g] for g in sorted(rec)][:8]))
        must_not = m.must_not_exact if exact else m.must_not
        for g in sorted(rec):
            d = dict(ctx, gene=genes[g], p_adj=[float(m.p_lo[g]), float(m.p_hi[g])], q1=float(m.q1[g]),
                     qdiff=float(m.qdiff[g]), fold=float(m.fold[g]))
            if not m.allowed[g]:
                raise Violation('recorded_outside_gene_list', d)
            if m.below_floor[g]:
                raise Violation('recorded_below_floor', d)
            if m.p_fail[g]:
                raise Violation('recorded_not_significant', d)
            if must_not[g]:
                raise Violation('recorded_not_strict_with_exact_penetrance', d)
            if abs(m.diff[g]) > 1e-9:
                second_higher = (m.diff[g] > 0) != swapped      # is the file's node2 the higher one
                if (g in up) != bool(second_higher):
                    raise Violation('direction', dict(d, recorded='up' if g in up else 'down',
                                                      mean_node2_minus_node1=float(-m.diff[g] if swapped else m.diff[g])))
                stats['direction_checked'] += 1
            if m.undefined[g]:
                stats['recorded_undefined'] += 1
            stats['recorded'] += 1
            if not m.must[g]:
                stats['recorded_relaxed_or_band'] += 1
        missing = np.where(m.must)[0]
        for g in missing:
            if int(g) not in rec:
                raise Violation('strict_marker_missing', dict(ctx, gene=genes[g], p_adj=[float(m.p_lo[g]), float(m.p_hi[g])],
                                                              q1=float(m.q1[g]), qdiff=float(m.qdiff[g]), fold=float(m.fold[g])))
        stats['must'] += int(m.must.sum())


def census(models, stats, classes):
    nontrivial = False
    any_small = any_undef = any_band = False
    for m in models.values():
        stats['pairs'] += 1
        if not m.enough:
            any_small = True
            continue
        stats['undefined'] += int(m.undefined.sum())
        stats['band'] += int((m.p_band | (m.pen_band & ~m.p_fail & ~m.undefined)).sum())
        any_undef |= bool(m.undefined.any())
        any_band |= bool(m.p_band.any() or m.pen_band.any())
        # a gene failing exactly one criterion: significant but one strict threshold failed, or strict but not significant
        one_pen = m.p_pass & (m.n_strict_failed == 1) & ~m.pen_band
        one_p = m.p_fail & m.strict_pen & ~m.undefined
        if m.must.any() and (one_pen.any() or one_p.any()):
            nontrivial = True
    if any_small:
        classes.append('pair_with_1cell_cluster')
    if any_undef:
        classes.append('undefined_welch_gene')
    if any_band:
        classes.append('gene_in_margin_band')
    return nontrivial


def check(spec):
    cells = G.expand_cells(spec)
    spec = G.resolve_thresholds(spec, cells)
    models = G.pair_models(spec, cells)
    stats = {k: 0 for k in ('pairs', 'undefined', 'band', 'recorded', 'must', 'recorded_relaxed_or_band', 'recorded_undefined',
                            'direction_checked', 'runs', 'rename_pairs_compared', 'rename_pairs_skipped', 'rename_swapped_pairs')}
    classes = []
    if spec.get('p_th_rule') == 'holm_band':
        classes.append('tied_copies_with_threshold_inside_their_holm_products')
    ident = {l: l for l in spec['leaves']}
    with sandbox() as d:
        stats_path = G.write_stats(d / 'stats.h5', spec, cells)
        res = {}
        for route in spec.get('routes', ['std', 'pmask']):
            for i, cfg in enumerate(spec['runs']):
                tag = f'{route}{i}'
                if route == 'std':
                    r = _guard(run_std, 'route_raised_std', d, stats_path, spec['tree'], spec, cfg, tag)
                else:
                    r = _guard(run_pmask, 'route_raised_pmask', d, stats_path, spec, cfg, tag)
                stats['runs'] += 1
                dec = decode(r, spec, spec['leaves'], tag)
                judge(spec, dec, models, route, tag, ident, stats)
                res[tag] = (r, dec)
            if len(spec['runs']) > 1:
                same_tables(res[f'{route}0'][0], res[f'{route}1'][0], f'{route}0 vs {route}1: {spec["runs"]}')
        rn = spec.get('rename')
        if rn:
            mp, tree2 = G.renamed(spec)
            stats2 = G.write_stats(d / 'stats_renamed.h5', spec, cells, name_map=mp, tree=tree2)
            cfg = spec['runs'][0]
            route = rn['route']
            tag = f'{route}_renamed'
            if route == 'std':
                r2 = _guard(run_std, 'route_raised_std', d, stats2, tree2, spec, cfg, tag)
            else:
                r2 = _guard(run_pmask, 'route_raised_pmask', d, stats2, spec, cfg, tag)
            stats['runs'] += 1
            dec2 = decode(r2, spec, sorted(mp.values()), tag)
            judge(spec, dec2, models, route, tag, mp, stats)
            dec1 = res[f'{route}0'][1]
            for (a, b), m in models.items():
                o = dec1[frozenset((a, b))]
                n = dec2[frozenset((mp[a], mp[b]))]
                flipped = (o[0] == a) != (n[0] == mp[a])
                stats['rename_swapped_pairs'] += int(flipped)
                if not m.clean():
                    stats['rename_pairs_skipped'] += 1
                    continue
                want_up, want_dn = (o[3], o[2]) if flipped else (o[2], o[3])
                if n[2] != want_up or n[3] != want_dn:
                    raise Violation('renaming_changes_more_than_direction',
                                    {'route': route, 'pair': [o[0], o[1]], 'renamed_pair': [n[0], n[1]], 'order_swapped': flipped,
                                     'up': sorted(o[2]), 'down': sorted(o[3]), 'renamed_up': sorted(n[2]), 'renamed_down': sorted(n[3])})
                stats['rename_pairs_compared'] += 1
    nontrivial = census(models, stats, classes)
    up, down = G.direction_census(models)
    classes.append('exact_penetrance' if spec['exact'] else 'approx_penetrance')
    if spec['gene_list'] is not None:
        classes.append('gene_list')
    if rn:
        classes.append('renamed_' + rn['route'])
        if stats['rename_swapped_pairs']:
            classes.append('renaming_swaps_a_pair')
    if stats['recorded_relaxed_or_band']:
        classes.append('relaxed_marker_recorded')
    if stats['must']:
        classes.append('strict_marker')
    if up == 0 or down == 0:
        classes.append('direction_possibly_empty')
    if len({c['n_processors'] for c in spec['runs']}) > 1:
        classes.append('worker_counts_differ')
    if len({c['max_gb'] for c in spec['runs']}) > 1:
        classes.append('budgets_differ')
    if _n_pairs(spec) > 8:
        classes.append('multi_chunk')
    classes.append(f'leaves_{len(spec["leaves"])}')
    if nontrivial:
        classes.append('nontrivial')
    return Case(nontrivial, classes, info=stats)
