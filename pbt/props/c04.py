"""C04 - results depend only on inputs and seed, never on scheduling."""
import copy
import itertools
import json
import math
import os
import pathlib
import subprocess
import sys

import hypothesis.strategies as st

from pbt import gen, inject, materialize, pipeline, stage_runner
from pbt.core import Case, Violation, sandbox, VERIF_DIR, REPO_DIR
from pbt.props import common

ID = 'C04'
LEVEL = 'exploration'
TECHNIQUE = 'differential testing over owned schedules: each stage is re-run under pre-start worker delays realising chosen completion orders (multiprocessing.Process subclass), under other Python hash seeds (fresh interpreters), with worker counts inducing the same chunking, and in a fresh interpreter restricted to one or two CPUs (sched_setaffinity); canonical outputs compared bit for bit with a baseline run'
RULE = ('cases = (stage in {statistics, reference markers, query marker selection, mapping}) x generated input x completion orders of the first k<=4 workers '
        '(all k! orders enumerated for fixed inputs in the enumerated part; sampled permutations in the generated part) x hash seeds x worker counts; '
        'non-trivial = a run whose REALISED completion order (from finish stamps) differs from dispatch order, or whose hash seed differs from the baseline; '
        'distinct = distinct (spec hash)')
RULE += '; additions: reference markers also with a gene list and on 9-11 leaves, mapping also through the in-memory result path of run_type_assignment_on_h5ad, chunk sizes above ceil(n/workers), and one run per case repeated in a fresh interpreter restricted to one or two CPUs'
ASSUMPTIONS = ['completion order and hash seed are owned; finer timing (pre-emption inside a worker) is not',
               'timestamps, durations and metadata blocks are not compared']
EXHAUSTIVE = {'quick': False, 'thorough': True}

STAGES = ['stats', 'refm', 'qmark', 'mapping', 'mapdirect']


def budget(tier):
    return {'quick': 80, 'thorough': 800}[tier]


@st.composite
def strategy_(draw):
    stage = draw(st.sampled_from(STAGES))
    k = draw(st.integers(2, 4))
    spec = {'stage': stage, 'k': k,
            'orders': [list(draw(st.permutations(list(range(k))))) for _ in range(2)],
            'hash_seeds': [draw(st.integers(1, 5))],
            'affinity': draw(st.sampled_from([None, [0], [0], [0, 1]]))}
    if stage in ('mapping', 'mapdirect'):
        m = copy.deepcopy(draw(gen.map_cases(max_cells=12, max_leaves=8, allow_flatten=(stage == 'mapping'), allow_drop=(stage == 'mapping'))))
        n = len(m['query']['cells'])
        m['cfg']['n_processors'] = k
        m['cfg']['chunk_size'] = draw(st.integers(1, max(1, math.ceil(n / k))))
        if draw(st.booleans()):
            # a requested chunk size above ceil(n / workers): the documented chunking is then decided by the worker count
            m['cfg']['chunk_size'] = draw(st.integers(math.ceil(n / k), n + 3))
        m['cfg']['tmp_dir'] = True
        if draw(st.integers(0, 2)) == 0:
            m['cfg']['rng_seed'] = draw(st.sampled_from([0, 0, 1, 2**31 - 1, 2**32 - 1]))     # seeds at the edges of the range
        spec['map'] = m
    else:
        # reference-marker discovery also on wider taxonomies (>=32 leaf pairs: the pairs-per-worker batch then depends
        # on the worker count) and restricted to a gene list, as when it is run against a query
        wide = stage == 'refm' and draw(st.booleans())
        crowded = stage == 'stats' and draw(st.integers(0, 2)) == 0      # clusters of more than 255 cells
        spec['ref'] = draw(pipeline.ref_dataset_specs(max_leaves=11 if wide else 3 if crowded else 6, min_leaves=9 if wide else 2,
                                                      cells_per=6 if wide else draw(st.sampled_from([257, 300])) if crowded else None))
        spec['rows_at_a_time'] = draw(st.integers(5, 25)) if not crowded else draw(st.sampled_from([40, 100, 255]))
        if stage == 'refm':
            ng = spec['ref']['n_genes']
            spec['refm'] = {'n_valid': draw(st.sampled_from([3, 5, 10, 30])),
                            'gene_list': (sorted(draw(st.lists(st.integers(0, ng - 1), min_size=3, max_size=ng, unique=True)))
                                          if draw(st.booleans()) else None)}
    return spec


def strategy(tier):
    return strategy_()


FIXED_TREE = {'hierarchy': ['class', 'subclass', 'cluster'],
              'class': {'A': ['a1', 'a2'], 'B': ['b1']},
              'subclass': {'a1': ['x1', 'x2'], 'a2': ['x3', 'x6'], 'b1': ['x4', 'x5']},
              'cluster': {k: [] for k in ['x1', 'x2', 'x3', 'x4', 'x5', 'x6']}}


def enumerate_specs(tier):
    """all k! completion orders for k = 2, 3, 4 on fixed inputs, per stage (thorough);
    quick: all orders for k = 3 only"""
    ks = [3] if tier == 'quick' else [2, 3, 4]
    out = []
    for stage in STAGES:
        for k in ks:
            orders = [list(p) for p in itertools.permutations(range(k))]
            # several cases of <=6 orders each so that shards share the work
            for j in range(0, len(orders), 6):
                spec = {'stage': stage, 'k': k, 'orders': orders[j:j + 6], 'hash_seeds': [1, 2] if j == 0 else []}
                if stage in ('mapping', 'mapdirect'):
                    spec['map'] = gen.derived_case(FIXED_TREE, 7 + k)
                    spec['map']['query']['cells'] = [f'c{i}' for i in range(4 * k)]
                    spec['map']['cfg'].update(n_processors=k, chunk_size=3, tmp_dir=True)
                else:
                    spec['ref'] = {'tree': FIXED_TREE, 'n_genes': 20, 'cells_per': 10, 'seed': 3 + k, 'dtype': 'int32',
                                   'enc': 'csr', 'shuffle': True}
                    spec['rows_at_a_time'] = 9
                out.append(spec)
    return out


def sample_view(spec):
    v = {k: spec[k] for k in ('stage', 'k', 'orders', 'hash_seeds')}
    if 'map' in spec:
        v['map'] = common.map_sample_view(spec['map'])
    else:
        v['ref'] = {k: (x if k != 'tree' else x) for k, x in spec['ref'].items()}
    return v


def prepare(d, spec):
    """write the inputs of the stage under test; returns the stage_runner argument dict"""
    stage = spec['stage']
    a = {'stage': stage, 'dir': str(d), 'n_processors': spec['k']}
    if stage in ('mapping', 'mapdirect'):
        materialize.write_map_case(d, spec['map'])
        a['cfg'] = spec['map']['cfg']
        if stage == 'mapdirect':
            (d / 'spec.json').write_text(json.dumps(spec['map']))
        return a
    rs = spec['ref']
    pipeline.write_ref_h5ad(d / 'ref.h5ad', rs)
    h = rs['tree']['hierarchy']
    a['hierarchy'] = h
    a['rows_at_a_time'] = spec.get('rows_at_a_time', 9)
    tmp = d / 'prep_tmp'
    tmp.mkdir()
    if stage in ('refm', 'qmark'):
        pipeline.run_stats(d / 'ref.h5ad', h, d / 'stats.h5', tmp, n_processors=1, rows_at_a_time=1000)
    if stage == 'refm' and spec.get('refm'):
        a['n_valid'] = spec['refm']['n_valid']
        if spec['refm']['gene_list'] is not None:
            a['gene_list'] = [f'g{i}' for i in spec['refm']['gene_list']]
    if stage == 'qmark':
        pipeline.run_refmarkers(d / 'stats.h5', d / 'refm.h5', tmp, n_processors=1)
        a['genes'] = [f'g{i}' for i in range(rs['n_genes']) if i % 5]
    return a


def run_in_subprocess(a, hash_seed, affinity=None):
    env = dict(os.environ)
    env['PYTHONHASHSEED'] = str(hash_seed)
    if affinity is not None:
        env['VERIF_CPU_AFFINITY'] = ','.join(str(c) for c in affinity)
    else:
        env.pop('VERIF_CPU_AFFINITY', None)
    env['PYTHONPATH'] = f'{REPO_DIR}/src:{VERIF_DIR}'
    env.pop('CELL_TYPE_MAPPER_VERIF_TRACE', None)
    r = subprocess.run([sys.executable, '-m', 'pbt.stage_runner', json.dumps(a)], env=env, cwd=str(VERIF_DIR),
                       capture_output=True, text=True, timeout=600)
    for line in r.stdout.splitlines()[::-1]:
        if line.startswith('DIGEST '):
            return json.loads(line[7:])
    raise RuntimeError(f'stage_runner failed rc={r.returncode}: {r.stderr[-1500:]}')


def differs(base, other):
    keys = sorted(set(base) | set(other))
    return [k for k in keys if base.get(k) != other.get(k)]


def check(spec):
    stage, k = spec['stage'], spec['k']
    classes = ['stage_' + stage, f'k_{k}']
    n_reordered = 0
    n_hash = 0
    with sandbox() as d:
        a = prepare(d, spec)
        try:
            base = stage_runner.run_stage(dict(a, work=str(d / 'w_base'), tag='base'))
        except Exception as e:
            if stage in ('refm', 'qmark') and 'chunk' in str(e).lower():
                # reference-marker discovery cannot write an empty direction (recorded as a C11 finding)
                return Case(False, ['baseline_stage_failed_known_d5'])
            raise Violation('baseline_run_raised', {'stage': stage, 'error': f'{type(e).__name__}: {str(e)[:300]}'})
        if 'error' in base:
            return Case(False, ['baseline_mapping_error'])
        # ---- completion orders
        for j, order in enumerate(spec['orders']):
            plan = {}
            for pos, w in enumerate(order):
                plan[w] = {'delay': 0.15 * pos}
            for w in range(k, 64):
                plan[w] = {'delay': 0.05 * ((w * 7) % 3)}
            md = d / f'markers_{j}'
            md.mkdir()
            with inject.controlled(plan=plan, marker_dir=md):
                try:
                    got = stage_runner.run_stage(dict(a, work=str(d / f'w_{j}'), tag=f'o{j}'))
                except Exception as e:
                    raise Violation('delayed_run_raised', {'stage': stage, 'order': order, 'error': f'{type(e).__name__}: {str(e)[:300]}'})
            done = inject.read_markers(md)['done']
            if done != sorted(done):
                n_reordered += 1
            diff = differs(base, got)
            if diff:
                raise Violation('result_depends_on_completion_order', {'stage': stage, 'order': order, 'realised': done, 'differing': diff[:6]})
        # ---- hash seeds (fresh interpreters)
        for hs in spec['hash_seeds']:
            got = run_in_subprocess(dict(a, work=str(d / f'w_h{hs}'), tag=f'h{hs}'), hs)
            n_hash += 1
            diff = differs(base, got)
            if diff:
                raise Violation('result_depends_on_hash_seed', {'stage': stage, 'hash_seed': hs, 'differing': diff[:6]})
        # ---- another run of the same configuration on a machine with fewer usable cores (one / two CPUs)
        if spec.get('affinity'):
            got = run_in_subprocess(dict(a, work=str(d / 'w_aff'), tag='aff'), spec['hash_seeds'][0] if spec['hash_seeds'] else 1,
                                    affinity=spec['affinity'])
            classes.append('run_with_restricted_cpu_affinity')
            diff = differs(base, got)
            if diff:
                raise Violation('result_depends_on_usable_cpus', {'stage': stage, 'affinity': spec['affinity'], 'differing': diff[:6]})
        # ---- worker counts
        if stage in ('mapping', 'mapdirect'):
            cfg = spec['map']['cfg']
            n = len(spec['map']['query']['cells'])
            eff = min(max(1, math.ceil(n / cfg['n_processors'])), cfg['chunk_size'])
            for p in (1, 2, 3, 4, 5):
                if p == cfg['n_processors']:
                    continue
                if min(max(1, math.ceil(n / p)), cfg['chunk_size']) != eff:
                    continue
                a2 = dict(a, cfg=dict(cfg, n_processors=p), cfg_override={'n_processors': p}, work=str(d / f'w_p{p}'), tag=f'p{p}')
                got = stage_runner.run_stage(a2)
                classes.append('same_chunking_other_worker_count')
                diff = differs(base, got)
                if diff:
                    raise Violation('result_depends_on_worker_count_with_equal_chunks', {'n_processors': [cfg['n_processors'], p], 'differing': diff})
        elif stage in ('refm', 'qmark'):
            # marker discovery / selection promise results independent of the worker count altogether (C11, C12);
            # statistics sums are only promised "to rounding" across partitions (C09), so they are not compared here
            for p in sorted(({1, 2, 3, 4, k + 1} if a.get('gene_list') else {1, k + 1}) - {k}):
                got = stage_runner.run_stage(dict(a, n_processors=p, work=str(d / f'w_p{p}'), tag=f'p{p}'))
                diff = differs(base, got)
                if diff:
                    raise Violation('result_depends_on_worker_count', {'stage': stage, 'n_processors': [k, p], 'differing': diff[:6]})
                classes.append('other_worker_count')
        elif stage == 'stats':
            # float sums are only promised "to rounding" across partitions (C09) and are not compared across worker
            # counts; the cell / expression COUNTS are exact integers whatever the partition and are
            for p in sorted({1, k + 1} - {k}):
                got = stage_runner.run_stage(dict(a, n_processors=p, work=str(d / f'w_p{p}'), tag=f'p{p}'))
                diff = [key for key in ('n_cells', 'gt0', 'gt1', 'ge1', 'cluster_to_row', 'col_names') if base.get(key) != got.get(key)]
                if diff:
                    raise Violation('result_depends_on_worker_count', {'stage': stage, 'n_processors': [k, p], 'differing': diff})
                classes.append('counts_with_other_worker_count')
    if n_reordered:
        classes.append('realised_reordering')
    if n_hash:
        classes.append('other_hash_seed')
    return Case(n_reordered > 0 or n_hash > 0, classes, info={'reordered_runs': n_reordered, 'hash_seed_runs': n_hash,
                                                               'schedule_runs': len(spec['orders'])})
