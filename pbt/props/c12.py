"""C12 - selected query markers cover every cluster pair as far as possible."""
import numpy as np

from pbt import gen_c12 as G
from pbt import treemodel
from pbt.core import Case, Violation, sandbox, quiet

ID = 'C12'
LEVEL = 'exploration'
TECHNIQUE = ('property-based testing (Hypothesis): query-marker selection (select_all_markers / create_raw_marker_gene_lookup) on '
             'hand-synthesised reference-marker files vs. a census computed independently from the generating boolean tensor and '
             'the harness tree model, plus run-to-run equality over worker counts and large-parent thresholds')
RULE = ('cases = generated (taxonomy of 1-4 levels and 2-10 leaves, reference-marker tensor pair x gene x {up,down} with per-pair '
        'counts aimed at 0, the target n, n+1, 2n-1, 2n, 2n+1 and dense rows, or Bernoulli tables from 2% to 50% density; '
        '3-36 reference genes in random order; query = drawn subset of the reference genes plus unknown genes; target 1-6 with '
        'per-parent overrides; optional parent list; 3 run configurations covering thresholds 0 / between the parents\' pair counts / huge '
        'with a serial and a parallel run among them, through either entry point) plus a deterministic 116-case boundary grid (one pair taking every '
        '(n_up, n_down) in 0..2n+1, n = 1..3, beside a rich and a one-marker pair); every (parent, pair it must discriminate) is checked against the census; '
        'non-trivial = some processed parent has a pair with fewer query-available reference markers than twice its target and a pair '
        'with more; distinct = distinct spec hash')
RULE += '; additions: parents that discriminate exactly 255 / 256 / 257 leaf pairs (60-600 genes, seeded sparse tensor)'
ASSUMPTIONS = [
    'the reference-marker table has one row per alphabetised leaf pair (sorted leaf names, itertools.combinations order), as the '
    "library's own writer produces; gene names unique; the query shares >=1 gene with the reference (otherwise a documented error)",
    'the taxonomy has >=2 leaves (a one-leaf taxonomy has no pair and no reference-marker table)',
    '"the selection is the same" is read as: the same set of genes for every parent (the order inside a list is not part of the statement)',
    'genes_at_a_time stays 1 (DESIGN 1.1 item 7)',
]


def budget(tier):
    return {'quick': 400, 'thorough': 6400}[tier]


def strategy(tier):
    if tier == 'thorough':
        return G.cases(max_leaves=12, max_genes=48)
    return G.cases()


def enumerate_specs(tier):
    """deterministic boundary grid: in a 3-leaf, 2-level taxonomy the pair (a, c) takes every (n_up, n_down) in 0..2n+1 for
    n = 1..3 next to a rich pair (b, c) that shares its low-numbered genes and a one-marker pair (a, b) below class A"""
    tree = {'hierarchy': ['class', 'cluster'], 'class': {'A': ['a', 'b'], 'B': ['c']},
            'cluster': {'a': [], 'b': [], 'c': []}}
    out = []
    for n in (1, 2, 3):
        n_genes = 4 * n + 4
        genes = [f'g{i}' for i in range(n_genes)]
        for nu in range(2 * n + 2):
            for nd in range(2 * n + 2):
                up = [[1], list(range(nu)), list(range(n + 1))]
                down = [[], list(range(nu, nu + nd)), list(range(n_genes - n - 1, n_genes))]
                out.append({'tree': tree, 'genes': genes, 'tensor': {'up': up, 'down': down}, 'dtypes': 'writer',
                            'query': genes + ['zz0'], 'n_per_utility': n, 'override': {}, 'parent_list': None,
                            'configs': [{'n_processors': 1, 'behemoth_cutoff': 0, 'cutoff_kind': 'zero',
                                         'entry': 'select_all_markers'},
                                        {'n_processors': 2, 'behemoth_cutoff': 10 ** 7, 'cutoff_kind': 'huge',
                                         'entry': 'raw_lookup'}]})
    return out


def sample_view(spec):
    t = treemodel.Tree(spec['tree'])
    return {'hierarchy': spec['tree']['hierarchy'], 'n_leaves': len(t.leaves()), 'n_genes': len(spec['genes']),
            'n_query': len(spec['query']), 'n_per_utility': spec['n_per_utility'], 'override': spec['override'],
            'parent_list': spec['parent_list'], 'tensor_mode': spec['tensor'].get('mode', 'explicit'),
            'configs': spec['configs']}


# ----------------------------------------------------------------- running the code under test
def _tuple_parent(p):
    return None if p is None else (p[0], p[1])


def run_selection(d, ref_path, spec, cfg, tag):
    """-> {parent_key: list of gene names} as returned by the library"""
    from cell_type_mapper.taxonomy.taxonomy_tree import TaxonomyTree
    from cell_type_mapper.marker_selection.selection_pipeline import select_all_markers
    from cell_type_mapper.type_assignment.marker_cache_v2 import create_raw_marker_gene_lookup
    tmp = d / f'tmp_{tag}'
    tmp.mkdir()
    with quiet():
        tree = TaxonomyTree(data=spec['tree'])
    override = None
    if spec['override']:
        by_key = {G.parent_key(p): p for p in G.parents_of(spec['tree'])}
        override = {by_key[k]: v for k, v in spec['override'].items()}
    parent_list = None
    if spec['parent_list'] is not None:
        parent_list = [_tuple_parent(p) for p in spec['parent_list']]
    kw = dict(query_gene_names=list(spec['query']), taxonomy_tree=tree, n_per_utility=spec['n_per_utility'],
              n_processors=cfg['n_processors'], behemoth_cutoff=cfg['behemoth_cutoff'],
              n_per_utility_override=override, parent_list=parent_list, tmp_dir=str(tmp))
    with quiet():
        if cfg.get('entry') == 'raw_lookup':
            raw = create_raw_marker_gene_lookup(input_cache_path=ref_path, **kw)
            out = {k: v for k, v in raw.items() if k != 'log'}
        else:
            res, _log = select_all_markers(marker_cache_path=ref_path, **kw)
            out = {}
            for p, v in res.items():
                k = G.parent_key(p)
                if k in out:
                    raise Violation('parent_key_twice', {'parent': k})
                out[k] = v
    return {k: [str(g) for g in v] for k, v in out.items()}


# ----------------------------------------------------------------- the census
def census(spec):
    """everything the oracle needs, from the tensor and the harness tree model only"""
    up, down = G.expand_tensor(spec)
    genes = list(spec['genes'])
    col = {g: i for i, g in enumerate(genes)}
    in_query = np.array([g in set(spec['query']) for g in genes], dtype=bool)
    marker = up | down
    avail = (marker & in_query[None, :])
    ppp = G.pairs_per_parent(spec['tree'])
    if spec['parent_list'] is None:
        wanted = [G.parent_key(p) for p in G.parents_of(spec['tree'])]
    else:
        wanted = [G.parent_key(_tuple_parent(p)) for p in spec['parent_list']]
    target = {k: spec['override'].get(k, spec['n_per_utility']) for k in wanted}
    return {'up': up, 'down': down, 'marker': marker, 'avail': avail, 'in_query': in_query, 'col': col,
            'pairs': ppp, 'wanted': wanted, 'target': target, 'pair_names': G.pair_list(spec['tree'])}


def check_one(spec, cen, got, tag):
    """oracle clauses for one returned table"""
    if set(got.keys()) != set(cen['wanted']):
        raise Violation('parents_reported', {'run': tag, 'got': sorted(got.keys()), 'want': sorted(cen['wanted'])})
    col = cen['col']
    n_checked = 0
    for k in cen['wanted']:
        sel = got[k]
        rows = cen['pairs'][k]
        if len(set(sel)) != len(sel):
            raise Violation('duplicate_gene', {'run': tag, 'parent': k, 'selected': sel})
        if not rows:
            if sel:
                raise Violation('nothing_to_discriminate', {'run': tag, 'parent': k, 'selected': sel})
            continue
        for g in sel:
            if g not in col:
                raise Violation('gene_not_in_reference', {'run': tag, 'parent': k, 'gene': g})
            if not cen['in_query'][col[g]]:
                raise Violation('gene_not_in_query', {'run': tag, 'parent': k, 'gene': g})
        idx = np.array([col[g] for g in sel], dtype=int)
        sub = cen['marker'][rows, :]
        for g, j in zip(sel, idx):
            if not sub[:, j].any():
                raise Violation('gene_marks_no_relevant_pair', {'run': tag, 'parent': k, 'gene': g})
        t = cen['target'][k]
        n_av = cen['avail'][rows, :].sum(axis=1)
        n_got = sub[:, idx].sum(axis=1) if len(idx) else np.zeros(len(rows), dtype=int)
        need = np.minimum(2 * t, n_av)
        bad = np.where(n_got < need)[0]
        if len(bad):
            b = int(bad[0])
            r = rows[b]
            raise Violation('pair_coverage', {
                'run': tag, 'parent': k, 'pair': list(cen['pair_names'][r]), 'target': int(t),
                'selected_markers_of_pair': int(n_got[b]), 'available_in_query': int(n_av[b]),
                'required': int(need[b]), 'selected': sel,
                'pair_up': [spec['genes'][j] for j in np.where(cen['up'][r] & cen['in_query'])[0]],
                'pair_down': [spec['genes'][j] for j in np.where(cen['down'][r] & cen['in_query'])[0]]})
        n_checked += len(rows)
    return n_checked


def check(spec):
    cen = census(spec)
    results = []
    with sandbox() as d:
        ref = d / 'reference_markers.h5'
        G.write_reference_markers(ref, spec, cen['up'], cen['down'])
        for i, cfg in enumerate(spec['configs']):
            try:
                got = run_selection(d, ref, spec, cfg, str(i))
            except Violation:
                raise
            except Exception as e:   # every generated input is in the accepted domain: raising is an observation
                raise Violation('run_raised', {'config': cfg, 'error': f'{type(e).__name__}: {str(e)[:400]}'})
            results.append(got)
    n_checked = 0
    for i, got in enumerate(results):
        n_checked += check_one(spec, cen, got, i)
    base = results[0]
    order_differs = False
    for i, got in enumerate(results[1:], start=1):
        for k in cen['wanted']:
            if set(got[k]) != set(base[k]):
                raise Violation('selection_depends_on_configuration', {
                    'parent': k, 'config_0': spec['configs'][0], f'config_{i}': spec['configs'][i],
                    'selected_0': base[k], f'selected_{i}': got[k]})
            if got[k] != base[k]:
                order_differs = True
    return Case(*classify(spec, cen, base, order_differs), info={'pair_checks': n_checked})


def classify(spec, cen, base, order_differs):
    classes = []
    lt = gt = False
    seen = set()
    n_behemoth = {i: 0 for i in range(len(spec['configs']))}
    n_pairs = len(cen['pair_names'])
    for k in cen['wanted']:
        rows = cen['pairs'][k]
        if not rows:
            seen.add('parent_nothing_to_discriminate')
            continue
        t = cen['target'][k]
        for i, cfg in enumerate(spec['configs']):
            if len(rows) > min(cfg['behemoth_cutoff'], n_pairs // 2):
                n_behemoth[i] += 1
        up_av = (cen['up'][rows] & cen['in_query']).sum(axis=1)
        dn_av = (cen['down'][rows] & cen['in_query']).sum(axis=1)
        tot = up_av + dn_av
        ref_tot = cen['marker'][rows].sum(axis=1)
        if np.any(tot < 2 * t):
            lt = True
        if np.any(tot > 2 * t):
            gt = True
        if np.any(tot == 0):
            seen.add('pair_no_marker_available')
        if np.any(ref_tot == 0):
            seen.add('pair_no_reference_marker')
        if np.any((tot > 0) & (tot <= t)):
            seen.add('pair_at_most_target_in_total')
        if np.any((np.minimum(up_av, dn_av) < t) & (np.maximum(up_av, dn_av) >= t)):
            seen.add('pair_short_in_one_direction')
        if np.any((up_av < t) & (dn_av < t) & (tot > 0)):
            seen.add('pair_short_in_both_directions')
        if np.any((np.minimum(up_av, dn_av) < t) & (tot >= 2 * t)):
            seen.add('pair_short_one_direction_but_2n_in_total')
        if np.any(tot == 2 * t):
            seen.add('pair_exactly_2n')
        if np.any((up_av >= t) & (dn_av >= t)):
            seen.add('pair_both_directions_reach_target')
        if np.any(ref_tot > tot):
            seen.add('pair_loses_markers_to_query_filter')
        if k in spec['override'] and spec['override'][k] != spec['n_per_utility']:
            seen.add('override_applies')
        if len(base[k]) < cen['avail'][rows].any(axis=0).sum():
            seen.add('selection_is_proper_subset')
    classes += sorted(seen)
    if lt:
        classes.append('has_pair_lt_2n')
    if gt:
        classes.append('has_pair_gt_2n')
    kinds = set()
    for i in n_behemoth:
        n_work = sum(1 for k in cen['wanted'] if cen['pairs'][k])
        if n_work == 0:
            continue
        if n_behemoth[i] == 0:
            kinds.add('cfg_all_thinned')
        elif n_behemoth[i] == n_work:
            kinds.add('cfg_all_full_table')
        else:
            kinds.add('cfg_mixed_full_and_thinned')
    classes += sorted(kinds)
    if len({c['n_processors'] for c in spec['configs']}) > 1:
        classes.append('worker_counts_differ')
    if any(c.get('entry') == 'raw_lookup' for c in spec['configs']):
        classes.append('entry_raw_lookup')
    if spec['parent_list'] is not None:
        classes.append('parent_list_given')
    if cen['in_query'].all():
        classes.append('query_has_all_reference_genes')
    else:
        classes.append('query_misses_reference_genes')
    if any(g not in cen['col'] for g in spec['query']):
        classes.append('query_has_unknown_genes')
    if order_differs:
        classes.append('same_set_different_order')
    tm = spec['tensor'].get('mode', 'explicit')
    classes.append(f'tensor_{tm}')
    dens = cen['marker'].mean()
    classes.append('density_lt_10pct' if dens < 0.1 else 'density_gt_60pct' if dens > 0.6 else 'density_mid')
    if not cen['up'].any() or not cen['down'].any():
        classes.append('one_direction_empty_everywhere')
    classes.append(f"levels_{len(spec['tree']['hierarchy'])}")
    classes.append(f"dtypes_{spec.get('dtypes', 'int64')}")
    return (lt and gt), classes
