"""shared helpers for the metamorphic mapping checks (C06, C07)"""
import numpy as np

from pbt import refmodel, treemodel
from pbt.core import Violation


def by_id(results):
    return {r['cell_id']: r for r in results}


def near_tie_cells(spec, out, margin=1e-7):
    """cell ids whose path contains a node where the reference model sees a correlation
    margin below `margin` between the winning child and the rest (factor 1: one subset = all genes)"""
    vt = treemodel.Tree(refmodel.voting_tree(spec))
    model = refmodel.VoteModel(spec)
    flagged = set()
    for r in out['results']:
        ci = model.cell_index[r['cell_id']]
        parent = None
        for lv in vt.h:
            kids = vt.children(parent)
            if len(kids) >= 2:
                key = 'None' if parent is None else f'{parent[0]}/{parent[1]}'
                genes = list(out['marker_genes'][key])
                m = model.node(ci, vt, parent, genes, [list(range(len(genes)))])
                ill = model.float32 and m.get('min_rel_std', 1.0) < 1e-2
                if m['ambiguous'] or m['min_margin'] < max(margin, 10 * m.get('tol', 0.0) if model.float32 else margin) or ill:
                    flagged.add(r['cell_id'])
                    break
            parent = (lv, r[lv]['assignment'])
    return flagged


def compare_records(a, b, levels, tol=None, ctx=None):
    """a, b: result records of one cell. tol None => bitwise."""
    ctx = dict(ctx or {}, cell=a.get('cell_id'))
    for lv in levels:
        ra, rb = a[lv], b[lv]
        for k in ('assignment', 'bootstrapping_probability', 'aggregate_probability', 'directly_assigned'):
            if ra.get(k) != rb.get(k):
                raise Violation('record_differs', dict(ctx, level=lv, key=k, first=ra.get(k), second=rb.get(k)))
        for k in ('runner_up_assignment', 'runner_up_probability'):
            if list(ra.get(k, [])) != list(rb.get(k, [])):
                raise Violation('runner_up_differs', dict(ctx, level=lv, key=k, first=ra.get(k), second=rb.get(k)))
        ca = [ra['avg_correlation']] + list(ra.get('runner_up_correlation', []))
        cb = [rb['avg_correlation']] + list(rb.get('runner_up_correlation', []))
        if len(ca) != len(cb):
            raise Violation('runner_up_differs', dict(ctx, level=lv, key='runner_up_correlation'))
        for x, y in zip(ca, cb):
            if tol is None:
                if x != y:
                    raise Violation('correlation_not_bitwise', dict(ctx, level=lv, first=x, second=y))
            elif abs(x - y) > tol:
                raise Violation('correlation_differs', dict(ctx, level=lv, first=x, second=y, tol=tol))


def log2cpm(x):
    x = np.asarray(x, dtype=np.float64)
    rs = x.sum(axis=1)
    rs = np.where(rs > 0, rs, 1.0)
    return np.log2(1.0 + 1.0e6 * x / rs[:, None])
