"""C07 - mapping is invariant to count scale, declared normalisation, gene order."""
import copy
import os

import hypothesis.strategies as st
import numpy as np

from pbt import gen, mapping, materialize
from pbt.core import Case, Violation, sandbox
from pbt.props import common, metam

ID = 'C07'
LEVEL = 'exploration'
TECHNIQUE = 'property-based testing (Hypothesis), metamorphic: paired run_mapping runs under (a) raw vs. harness-computed log2(CPM+1), (b) per-cell positive scaling, (c) gene-column permutation (bitwise), (d) extra/removed non-marker genes on normalised input (bitwise), (e) a negative raw value must be rejected'
RULE = ('cases = generated mapping inputs x relation a-e; factor 1 for (a),(b) (tolerance + near-tie skip), any factor for the bitwise relations (c),(d); '
        'non-trivial = the transformation is not the identity and touches at least one marker gene column position (a,b,c: always when >=1 marker column moves / values change; d: genes added or removed; e: always); distinct = distinct spec hash')
RULE += '; additions: negative values down to -1e-30, dense re-chunked layouts, extra-genes variant with 1-3 cells and 240-300 almost empty new genes'
ASSUMPTIONS = ['raw counts are integer valued so that row sums are exact in any column order',
               'scale factors range from 1e-12 to 1e9 (so that cell totals far below 1 and far above 1e6 occur), applied in float64']


def budget(tier):
    return {'quick': 560, 'thorough': 8000}[tier]


@st.composite
def strategy_(draw):
    rel = draw(st.sampled_from(['log2cpm', 'scale', 'permute_genes', 'permute_genes', 'extra_genes', 'negative']))
    factor = 1.0 if rel in ('log2cpm', 'scale') else None
    dt = ['float64', 'float32', 'int32', 'int64', 'uint16', 'uint8', 'uint8'] if rel != 'extra_genes' else ['float64', 'float32']
    spec = copy.deepcopy(draw(gen.map_cases(factor=factor, max_cells=14 if rel in ('extra_genes', 'negative') else 8, dtypes=dt)))
    n = len(spec['query']['cells'])
    g = len(spec['query']['genes'])
    t = {'rel': rel}
    if rel == 'scale':
        t['factors'] = draw(st.lists(st.sampled_from([1, 2, 3, 7, 10, 1000, 0.5, 0.25, 1.5, 12.75, 1e-3, 1e-5, 1e-8, 1e-12, 1e6, 1e9]), min_size=n, max_size=n))
    elif rel == 'permute_genes':
        t['perm'] = list(draw(st.permutations(list(range(g)))))
    elif rel == 'extra_genes':
        spec['query']['kind'] = 'float'
        spec['cfg']['normalization'] = 'log2CPM'
        if draw(st.booleans()):
            # a memory budget of the order of one chunk of this (tiny) query, several chunks, factor < 1:
            # the relation must hold for every configuration, also when budgets are tight
            spec['cfg']['max_gb'] = draw(st.sampled_from([5e-7, 1e-6, 2e-6, 4e-6, 1e-5]))
            spec['cfg']['chunk_size'] = draw(st.integers(2, n + 3))
            spec['cfg']['n_processors'] = draw(st.integers(1, 2))
            if spec['cfg']['bootstrap_factor'] == 1.0:
                spec['cfg']['bootstrap_factor'] = 0.5
            spec['cfg']['bootstrap_factor_lookup'] = None
        t['n_new'] = draw(st.integers(0, 8))
        if draw(st.integers(0, 3)) == 0:
            # a few cells, hundreds of new (almost empty) genes: fewer stored values than genes, on both sides of 255
            keep_n = draw(st.integers(1, min(3, n)))
            spec['query']['cells'] = list(spec['query']['cells'])[:keep_n]
            spec['query']['zero_rows'] = [r for r in spec['query'].get('zero_rows', []) if r < keep_n]
            spec['query']['density'] = 0.4
            spec['query']['enc'] = draw(st.sampled_from(['csc', 'csc', 'csr']))
            t['n_new'] = draw(st.integers(240, 300))
            t['new_density'] = draw(st.sampled_from([0.0, 0.01, 0.03]))
        t['drop_nonmarkers'] = draw(st.booleans())
        t['add_unused_ref'] = draw(st.booleans())
        t['seed'] = draw(st.integers(0, 2**31 - 1))
        t['shuffle'] = draw(st.booleans())
    elif rel == 'negative':
        spec['query']['dtype'] = draw(st.sampled_from(['float32', 'float64', 'int32', 'int64']))
        if draw(st.booleans()):
            # dense X stored in small HDF5 chunks (as compressed files are): the negative value may sit in any
            # chunk, also in a ragged last block of rows or columns
            spec['query']['enc'] = 'dense'
            spec['query']['rechunk'] = draw(st.sampled_from([[1, 1], [2, 3], [3, 1000], [1000, 2], [4, 4], [5, 3], [7, 7]]))
        if draw(st.booleans()):
            # the file carries the entries the package's own validation step leaves in uns
            spec['query']['uns'] = {'AIBS_CDM_n_mapped_genes': g, 'AIBS_CDM_gene_mapping': {}}
        t['row'] = draw(st.integers(0, n - 1))
        t['col'] = draw(st.integers(0, g - 1))
        t['value'] = draw(st.sampled_from([-1, -3, -0.5, -1e-3, -1e-7, -1e-12, -1e-30]))
        if 'int' in spec['query']['dtype']:
            t['value'] = int(min(-1, t['value']))
    spec['transform'] = t
    return spec


def strategy(tier):
    return strategy_()


KNOWN_TRIGGERS = {}


def sample_view(spec):
    v = common.map_sample_view(spec)
    v['transform'] = spec['transform']
    return v


def all_markers(spec):
    s = set()
    for v in spec['markers'].values():
        s |= set(v)
    return s


def check(spec):
    t = spec['transform']
    rel = t['rel']
    q = spec['query']
    x = materialize.expand_query(q)
    genes = list(q['genes'])
    spec_b = copy.deepcopy(spec)
    cfg_b = dict(spec['cfg'])
    tol = None
    touched = True
    if rel == 'log2cpm':
        qb = dict(q, x=metam.log2cpm(x).tolist(), dtype='float64')
        cfg_b['normalization'] = 'log2CPM'
        tol = 5e-5 if q['dtype'] == 'float32' else 1e-9
    elif rel == 'scale':
        f = np.array(t['factors'], dtype=np.float64)
        qb = dict(q, x=(x.astype(np.float64) * f[:, None]).tolist(), dtype='float64')
        tol = 5e-5 if q['dtype'] == 'float32' else 1e-9
        touched = any(v != 1 for v in t['factors'])
    elif rel == 'permute_genes':
        p = t['perm']
        qb = dict(q, x=x[:, p].tolist(), genes=[genes[i] for i in p])
        mk = all_markers(spec)
        touched = any(genes[i] in mk and i != j for j, i in enumerate(p))
    elif rel == 'extra_genes':
        rng = np.random.default_rng(t['seed'])
        mk = all_markers(spec)
        keep = [i for i, gname in enumerate(genes) if gname in mk or not t['drop_nonmarkers']]
        xb = x[:, keep]
        gb = [genes[i] for i in keep]
        new = [f'novel_{i}' for i in range(t['n_new'])]
        if t['add_unused_ref']:
            new += [gname for gname in spec['ref']['genes'] if gname not in mk and gname not in gb][:2]
        if new:
            vals = rng.random((x.shape[0], len(new))) * 9
            if 'new_density' in t:
                vals = vals * (rng.random(vals.shape) < t['new_density'])
            xb = np.hstack([xb, vals.astype(x.dtype)])
            gb = gb + new
        if t['shuffle']:
            p = rng.permutation(len(gb))
            xb, gb = xb[:, p], [gb[i] for i in p]
        qb = dict(q, x=xb.tolist(), genes=gb)
        touched = (gb != genes)
    elif rel == 'negative':
        xb = x.astype(np.dtype(q['dtype'])).copy()
        xb[t['row'], t['col']] = t['value']
        qb = dict(q, x=xb.tolist())
    spec_b['query'] = qb
    spec_b['cfg'] = cfg_b
    with sandbox() as d:
        da, db = d / 'a', d / 'b'
        da.mkdir()
        db.mkdir()
        pb = materialize.write_map_case(db, spec_b)
        if rel == 'negative':
            ob = mapping.run(db, pb, cfg_b)
            csv_exists = os.path.exists(ob.config['csv_result_path'])
            if ob.ok:
                raise Violation('negative_raw_value_mapped', {'value': t['value'], 'dtype': q['dtype'], 'enc': q['enc']})
            if ob.out is not None and 'results' in ob.out:
                raise Violation('negative_raw_value_wrote_results', {})
            if csv_exists:
                raise Violation('negative_raw_value_wrote_csv', {})
            return Case(True, ['rel_negative', 'enc_' + q['enc']] + (['negative_in_chunked_dense'] if q.get('rechunk') else []))
        pa = materialize.write_map_case(da, spec)
        oa = mapping.run(da, pa, spec['cfg'])
        ob = mapping.run(db, pb, cfg_b)
    if not oa.ok or not ob.ok:
        raise Violation('run_raised', {'first': repr(oa.error)[:300], 'second': repr(ob.error)[:300]})
    h = spec['tree']['hierarchy']
    ra, rb = oa.out['results'], ob.out['results']
    if [r['cell_id'] for r in ra] != [r['cell_id'] for r in rb]:
        raise Violation('cell_order', {})
    skip = set()
    if tol is not None:
        skip = metam.near_tie_cells(spec, oa.out)
    if oa.out['marker_genes'] != ob.out['marker_genes'] and rel != 'extra_genes':
        raise Violation('marker_genes_differ', {'rel': rel})
    if rel == 'extra_genes':
        for k in oa.out['marker_genes']:
            if set(oa.out['marker_genes'][k]) != set(ob.out['marker_genes'][k]):
                raise Violation('marker_genes_differ', {'rel': rel, 'parent': k})
    compared = 0
    for a, b in zip(ra, rb):
        if a['cell_id'] in skip:
            continue
        metam.compare_records(a, b, h, tol=tol, ctx={'rel': rel})
        compared += 1
    classes = ['rel_' + rel]
    if skip:
        classes.append('near_tie_cells_skipped')
    if spec['cfg']['bootstrap_factor'] < 1:
        classes.append('factor_lt_1')
    return Case(touched and compared > 0, classes, info={'cells_compared': compared, 'near_tie_skipped': len(skip)})
