"""C19 - runs leave inputs untouched, scratch space empty, and do not interfere."""
import hashlib
import json
import os
import pathlib
import shutil
import subprocess
import sys
import tempfile
import time

import hypothesis
import hypothesis.strategies as st
from hypothesis import settings, HealthCheck
from hypothesis.stateful import RuleBasedStateMachine, rule, invariant, initialize, precondition, run_state_machine_as_test

from pbt import inject, materialize, pipeline, stage_runner
from pbt.core import Violation, quiet, scratch_root, derive_seed, spec_hash, VERIF_DIR, REPO_DIR

ID = 'C19'
LEVEL = 'exploration'
TECHNIQUE = 'stateful property-based testing (Hypothesis RuleBasedStateMachine): histories of successful runs, injected/invalid failing runs, planted stale files and concurrent pairs over shared scratch and output directories; invariants on file digests, directory listings and result digests after every step'
RULE = ('cases = histories (<=6 steps quick, <=10 thorough) of: run a stage (statistics, reference markers, query marker selection, mapping) successfully; run it with an injected worker failure or an invalid input; '
        'plant stale files under every temp-name pattern the stages use; start two runs together in fresh interpreters sharing the directories; '
        'non-trivial = a history containing a failure or planted files before a later successful run, or a concurrent pair; distinct = distinct rule sequence')
RULE += "; further rules: mapping with an unwritable JSON / HDF5 / CSV destination, the type-assignment stage called directly on a results directory that holds another run's chunk files, storing results in the query file; the reference file is CSC-encoded"
ASSUMPTIONS = ['"scratch empty after return" is asserted for every successful stage and for failing mapping runs (as the statement says); leftovers of other failing stages are recorded, not asserted',
               'two concurrent runs are two real processes released by a barrier, not an owned interleaving']

STAGES = ['stats', 'refm', 'qmark', 'mapping']
TREE = {'hierarchy': ['class', 'subclass', 'cluster'],
        'class': {'A': ['a1', 'a2'], 'B': ['b1']},
        'subclass': {'a1': ['x1', 'x2'], 'a2': ['x3', 'x6'], 'b1': ['x4', 'x5']},
        'cluster': {k: [] for k in ['x1', 'x2', 'x3', 'x4', 'x5', 'x6']}}

STALE_PATTERNS = ['result_buffer_stale', 'result_buffer_stale/results_buffer_stale/0_3_assignment.json',
                  'result_buffer_stale/results_buffer_stale/90_93_assignment.json',
                  'precomputation_buffer_stale.h5', 'precomputation_data_buffer_stale', 'columns_0_8_stale.h5', 'unthinned_stale.h5',
                  'transposed_stale.h5', 'find_markers_stale', 'find_markers_stale/columns_0_8_x.h5', 'transposition_stale', 'transpose_0_10_stale.h5',
                  'file_tracker_stale', 'file_tracker_stale/stats_x.h5', 'anndata_iterator_stale', 'query.h5ad_as_csr_stale.h5',
                  'query_marker_stale.h5', 'cell_type_mapper_20200101_stale', 'transposing_sparse_matrix_stale']


def budget(tier):
    return 0


_FIX = {}


def fixture():
    if 'd' in _FIX:
        return _FIX['d']
    base = pathlib.Path(tempfile.mkdtemp(prefix='c19fix_', dir=scratch_root()))
    from pbt.core import remove_at_exit
    remove_at_exit(base)
    rs = {'tree': TREE, 'n_genes': 20, 'cells_per': 10, 'seed': 17, 'dtype': 'int32', 'enc': 'csc', 'shuffle': True,
          'family': 'nested'}
    pipeline.write_ref_h5ad(base / 'ref.h5ad', rs)
    tmp = base / 'tmp'
    tmp.mkdir()
    pipeline.run_stats(base / 'ref.h5ad', TREE['hierarchy'], base / 'stats.h5', tmp, n_processors=1, rows_at_a_time=1000)
    pipeline.run_refmarkers(base / 'stats.h5', base / 'refm.h5', tmp, n_processors=1)
    genes = [f'g{k}' for k in range(20) if k % 5]
    lk = pipeline.run_query_markers(base / 'refm.h5', genes, base / 'stats.h5', tmp, n_processors=1)
    (base / 'markers.json').write_text(json.dumps(lk))
    X, rows, g, cells, prof = pipeline.expand_ref_dataset(rs)
    materialize.write_h5ad(base / 'query.h5ad', X[:8], [f'q{k}' for k in range(8)], g, enc='csc')
    xneg = X[:4].astype('float64')
    xneg[1, 2] = -3.0
    materialize.write_h5ad(base / 'query_negative.h5ad', xneg, [f'q{k}' for k in range(4)], g, enc='csr')
    shutil.rmtree(tmp)
    _FIX['d'] = base
    _FIX['genes'] = genes
    _FIX['query_genes'] = [str(x) for x in g]
    return base


def listing(d):
    d = pathlib.Path(d)
    return {str(p.relative_to(d)) for p in d.rglob('*')}


def digest_file(p):
    h = hashlib.sha256()
    with open(p, 'rb') as f:
        for blk in iter(lambda: f.read(1 << 20), b''):
            h.update(blk)
    return h.hexdigest()


def stage_args(stage, params, indir):
    a = {'stage': stage, 'dir': str(indir), 'n_processors': params['n_processors']}
    if stage == 'stats':
        a.update(hierarchy=TREE['hierarchy'], rows_at_a_time=params.get('rows_at_a_time', 9))
    elif stage == 'qmark':
        gs = params.get('genes')
        a.update(genes=_FIX['genes'] if not gs else [f'g{i}' for i in gs])
    elif stage == 'mapping':
        a['cfg'] = {'chunk_size': params.get('chunk_size', 3), 'n_processors': params['n_processors'], 'bootstrap_iteration': 4, 'bootstrap_factor': 0.8,
                    'n_runners_up': 2, 'min_markers': 2, 'normalization': params.get('normalization', 'raw'), 'rng_seed': 23,
                    'tmp_dir': not params.get('no_tmp', False), 'cloud_safe': False, 'max_gb': params.get('max_gb', 1.0)}
    return a


_BASE = {}


def baseline(stage, params):
    key = json.dumps([stage, params], sort_keys=True)
    if key in _BASE:
        return _BASE[key]
    fx = fixture()
    d = pathlib.Path(tempfile.mkdtemp(prefix='c19base_', dir=scratch_root()))
    try:
        ind = d / 'in'
        shutil.copytree(fx, ind)
        r = stage_runner.run_stage(dict(stage_args(stage, params, ind), work=str(d / 'w'), tag='b'))
    finally:
        shutil.rmtree(d, ignore_errors=True)
    _BASE[key] = r
    return r


class Fail(Exception):
    pass


class History(RuleBasedStateMachine):
    def __init__(self):
        super().__init__()
        fx = fixture()
        self.root = pathlib.Path(tempfile.mkdtemp(prefix='c19hist_', dir=scratch_root()))
        self.ind = self.root / 'in'
        shutil.copytree(fx, self.ind)
        self.scratch = self.root / 'scratch'
        self.out = self.root / 'out'
        self.systmp = self.root / 'systmp'
        for p in (self.scratch, self.out, self.systmp):
            p.mkdir()
        self._old_tmp = tempfile.tempdir
        tempfile.tempdir = str(self.systmp)
        self.in_digests = {p.name: digest_file(p) for p in self.ind.iterdir() if p.is_file()}
        self.in_listing = listing(self.ind)
        self.step = 0
        self.trace = []
        self.dirty = False        # a failure or planted files happened
        self.nontrivial = False
        self.n_invalid = 0
        self.n_obsm = 0
        self.n_plant = 0
        self.n_direct = 0
        self.tolerated = set()    # scratch leftovers of failing non-mapping stages + planted files

    def teardown(self):
        tempfile.tempdir = self._old_tmp
        shutil.rmtree(self.root, ignore_errors=True)
        STATS['histories'] += 1
        if self.nontrivial:
            STATS['nontrivial'].add(spec_hash(self.trace))
        for t in self.trace:
            STATS['classes'][t[0]] = STATS['classes'].get(t[0], 0) + 1
        if len(STATS['samples']) < 3 and self.nontrivial:
            STATS['samples'].append(self.trace)

    # ------------------------------------------------------------ helpers
    def _fail(self, clause, detail):
        FAILS.append({'clause': clause, 'detail': detail, 'spec': {'history': self.trace}})
        raise Fail(f'{clause}: {detail}')

    def _check_inputs(self, what):
        if listing(self.ind) != self.in_listing:
            self._fail('input_directory_changed', {'after': what, 'new': sorted(listing(self.ind) - self.in_listing)})
        for name, dg in self.in_digests.items():
            if digest_file(self.ind / name) != dg:
                self._fail('input_file_modified', {'after': what, 'file': name})

    def _check_scratch(self, before, what, strict):
        new = (listing(self.scratch) - before)
        new_sys = listing(self.systmp)
        if strict and new:
            self._fail('scratch_not_empty_after_return', {'after': what, 'left_behind': sorted(new)[:8]})
        if strict and new_sys:
            self._fail('system_temp_not_empty_after_return', {'after': what, 'left_behind': sorted(new_sys)[:8]})
        if not strict:
            self.tolerated |= new
            for p in self.systmp.iterdir():
                shutil.rmtree(p, ignore_errors=True) if p.is_dir() else p.unlink()

    def _check_outputs(self, before, allowed_prefix, what):
        new = listing(self.out) - before
        bad = [n for n in new if not n.split('/')[0].startswith(allowed_prefix)]
        if bad:
            self._fail('file_created_outside_requested_outputs', {'after': what, 'files': sorted(bad)[:8]})

    # ------------------------------------------------------------ rules
    @rule(stage=st.sampled_from(STAGES), n_processors=st.integers(1, 3), small_budget=st.booleans(),
          gene_subset=st.one_of(st.just([]), st.lists(st.integers(0, 19), min_size=1, max_size=5, unique=True)))
    def run_ok(self, stage, n_processors, small_budget, gene_subset=(), no_tmp=False):
        self.step += 1
        params = {'n_processors': n_processors}
        if stage == 'qmark' and gene_subset:
            params['genes'] = sorted(gene_subset)
        if stage == 'mapping' and small_budget:
            params['max_gb'] = 1e-9
        if stage == 'mapping' and no_tmp:
            # no scratch directory given: intermediate results go below the output directory, other temporary
            # files to the system's temp directory (redirected into the sandbox and watched like the scratch directory)
            params['no_tmp'] = True
        tag = f's{self.step}'
        what = ['run_ok', stage, params]
        self.trace.append(what)
        sb, ob = listing(self.scratch), listing(self.out)
        a = dict(stage_args(stage, params, self.ind), work=str(self.out), tmp=str(self.scratch), tag=tag)
        if params.get('no_tmp'):
            a.pop('tmp')
            a['harness_tmp'] = str(self.root / 'harness_tmp')
        try:
            got = stage_runner.run_stage(a)
        except Exception as e:
            self._fail('successful_run_raised', {'step': what, 'error': f'{type(e).__name__}: {str(e)[:300]}'})
        if 'error' in got:
            self._fail('successful_run_raised', {'step': what, 'error': got['error']})
        self._check_inputs(what)
        self._check_scratch(sb, what, strict=True)
        self._check_outputs(ob, tag, what)
        want = baseline(stage, params)
        diff = [k for k in sorted(set(want) | set(got)) if want.get(k) != got.get(k)]
        if diff:
            self._fail('result_depends_on_history', {'step': what, 'differing': diff[:6], 'history': self.trace})
        if self.dirty:
            self.nontrivial = True

    # the successful run is the step every other one is judged by: registered three times so that the rule
    # selection (which enables a random subset of rules per history) reaches it in most histories
    @rule(stage=st.sampled_from(STAGES), n_processors=st.integers(1, 3), small_budget=st.booleans(),
          gene_subset=st.one_of(st.just([]), st.lists(st.integers(0, 19), min_size=1, max_size=5, unique=True)))
    def run_ok_again(self, stage, n_processors, small_budget, gene_subset=()):
        self.run_ok(stage=stage, n_processors=n_processors, small_budget=small_budget, gene_subset=gene_subset)

    @rule(stage=st.sampled_from(STAGES), n_processors=st.integers(1, 3), no_tmp=st.booleans())
    def run_ok_once_more(self, stage, n_processors, no_tmp=False):
        self.run_ok(stage=stage, n_processors=n_processors, small_budget=False, gene_subset=[], no_tmp=no_tmp)

    @rule(stage=st.sampled_from(STAGES), worker=st.integers(0, 1), mode=st.sampled_from(['kill', 'exit', 'raise']),
          point=st.sampled_from(['before', 'mid', 'after']), at=st.integers(5, 400))
    def run_injected_failure(self, stage, worker, mode, point, at):
        self.step += 1
        params = {'n_processors': 2}
        tag = f'f{self.step}'
        what = ['run_injected_failure', stage, worker, mode, point, at]
        self.trace.append(what)
        sb, ob = listing(self.scratch), listing(self.out)
        a = dict(stage_args(stage, params, self.ind), work=str(self.out), tmp=str(self.scratch), tag=tag)
        md = self.root / f'markers_{self.step}'
        md.mkdir()
        raised = False
        with inject.controlled(plan={worker: {'fault': mode, 'point': point, 'at': at}}, marker_dir=md):
            try:
                got = stage_runner.run_stage(a)
                raised = 'error' in got
            except Exception:
                raised = True
        delivered = worker in inject.read_markers(md)['faults']
        # the siblings of a failed worker may still be running when a (non-mapping) stage has raised: wait for them,
        # so that what they leave behind is attributed to THIS step (where the statement tolerates it) and not to a later one
        import multiprocessing
        for ch in multiprocessing.active_children():
            ch.join(timeout=30)
        shutil.rmtree(md, ignore_errors=True)      # a sibling worker of a failed stage may still be writing its stamp
        self._check_inputs(what)
        self._check_outputs(ob, tag, what)
        if delivered:
            self.dirty = True
            self.trace[-1] = what + ['delivered']
            # the statement promises an empty scratch after a failing run for mapping only
            self._check_scratch(sb, what, strict=(stage == 'mapping'))
        else:
            self._check_scratch(sb, what, strict=not raised)

    @precondition(lambda self: self.n_invalid < 1)
    @rule(kind=st.sampled_from(['negative', 'bad_normalization', 'missing_markers',
                                'hdf5_dir_missing', 'hdf5_is_dir', 'json_dir_missing', 'csv_dir_missing']))
    def run_invalid_mapping(self, kind):
        self.n_invalid += 1
        self.step += 1
        tag = f'i{self.step}'
        what = ['run_invalid_mapping', kind]
        self.trace.append(what)
        sb, ob = listing(self.scratch), listing(self.out)
        params = {'n_processors': 2}
        a = dict(stage_args('mapping', params, self.ind), work=str(self.out), tmp=str(self.scratch), tag=tag)
        if kind == 'bad_normalization':
            a['cfg']['normalization'] = 'rawr'
        from pbt import mapping
        paths = {'stats': self.ind / 'stats.h5', 'query': self.ind / 'query.h5ad', 'markers': self.ind / 'markers.json'}
        if kind == 'negative':
            paths['query'] = self.ind / 'query_negative.h5ad'
        if kind == 'missing_markers':
            paths['markers'] = self.ind / 'no_such_markers.json'
        cfg = dict(a['cfg'], tmp_name=str(self.scratch))
        # destinations that cannot be written (the failure then happens while the outputs are being written)
        if kind == 'hdf5_dir_missing':
            cfg['hdf5_override'] = str(self.out / f'{tag}_no_such_dir' / 'out.h5')
        elif kind == 'hdf5_is_dir':
            cfg['hdf5_override'] = str(self.ind)
        elif kind == 'json_dir_missing':
            cfg['json_override'] = str(self.out / f'{tag}_no_such_dir' / 'out.json')
        elif kind == 'csv_dir_missing':
            cfg['csv_override'] = str(self.out / f'{tag}_no_such_dir' / 'out.csv')
        o = mapping.run(self.out, paths, cfg, out_prefix=tag)
        if o.ok:
            self._fail('invalid_input_mapped', {'step': what})
        self.dirty = True
        self._check_inputs(what)
        self._check_outputs(ob, tag, what)
        self._check_scratch(sb, what, strict=True)

    @precondition(lambda self: self.n_direct < 2)
    @rule(chunk_size=st.sampled_from([1, 2, 3, 5]), n_processors=st.integers(1, 3),
          foreign=st.lists(st.sampled_from(['0_2', '0_8', '2_4', '4_6', '6_8', '7_8', '5_8', '90_93']), max_size=3, unique=True))
    def run_type_assignment_with_shared_results_dir(self, chunk_size, n_processors, foreign):
        """the type-assignment stage called directly with a results directory that other invocations used before:
        chunk files of other runs (other chunking, other assignments for the same cell ids) lie in it"""
        from pbt import mapping
        self.n_direct += 1
        self.step += 1
        what = ['run_type_assignment_with_shared_results_dir', chunk_size, n_processors, foreign]
        self.trace.append(what)
        cfg = dict(stage_args('mapping', {'n_processors': n_processors, 'chunk_size': chunk_size}, self.ind)['cfg'], flatten=False, drop_level=None)
        spec = {'cfg': cfg, 'query': {'genes': _FIX['query_genes']}}
        paths = {'stats': self.ind / 'stats.h5', 'query': self.ind / 'query.h5ad', 'markers': self.ind / 'markers.json'}
        key = f'direct_pristine_{chunk_size}_{n_processors}'     # the vote is reproducible for a fixed configuration (C04)
        if key not in _BASE:
            d0 = pathlib.Path(tempfile.mkdtemp(prefix='c19direct_', dir=scratch_root()))
            try:
                res0, err0 = mapping.run_direct(d0, paths, spec, use_buffer_dir=True)
            finally:
                shutil.rmtree(d0, ignore_errors=True)
            if err0 is not None:
                raise RuntimeError(f'harness: pristine direct run failed: {err0!r}')
            _BASE[key] = json.loads(json.dumps(res0, default=lambda o: o.item() if hasattr(o, 'item') else str(o)))
        want = {r['cell_id']: r for r in _BASE[key]}
        shared = self.scratch / 'assignment_results'
        shared.mkdir(exist_ok=True)
        ids = sorted(want)
        for name in foreign:
            r0, r1 = [int(v) for v in name.split('_')]
            recs = []
            for i in range(r0, min(r1, len(ids))):
                other = dict(want[ids[(i + 3) % len(ids)]])     # a plausible record - of another cell
                other['cell_id'] = f'q{i}'
                recs.append(other)
            (shared / f'{name}_assignment.json').write_text(json.dumps(recs))
        before = listing(shared)
        sb = listing(self.scratch)
        work = self.out / f'd{self.step}'
        work.mkdir()
        res, err = mapping.run_direct(work, paths, spec, buffer_dir=shared)
        import gc
        gc.collect()      # the library removes the CSR copy of a CSC query when its iterator object is released
        left_tmp = sorted(listing(work / 'direct_tmp')) if (work / 'direct_tmp').exists() else []
        shutil.rmtree(work, ignore_errors=True)
        if err is None and left_tmp:
            self._fail('scratch_not_empty_after_return', {'after': what, 'left_behind': left_tmp[:6]})
        if err is not None:
            self._fail('successful_run_raised', {'step': what, 'error': f'{type(err).__name__}: {str(err)[:300]}'})
        got = json.loads(json.dumps(res, default=lambda o: o.item() if hasattr(o, 'item') else str(o)))
        if sorted(r['cell_id'] for r in got) != ids:
            self._fail('result_depends_on_files_left_in_results_dir', {'step': what, 'cells': [r['cell_id'] for r in got]})
        for r in got:
            w = want[r['cell_id']]
            for lv in TREE['hierarchy']:
                if r[lv]['assignment'] != w[lv]['assignment'] or abs(r[lv]['bootstrapping_probability'] - w[lv]['bootstrapping_probability']) > 1e-12:
                    self._fail('result_depends_on_files_left_in_results_dir', {'step': what, 'cell': r['cell_id'], 'level': lv,
                                                                                 'got': r[lv]['assignment'], 'want': w[lv]['assignment']})
        left = listing(shared) - before
        if left:
            self._fail('results_dir_not_clean_after_return', {'step': what, 'left_behind': sorted(left)[:6]})
        self._check_inputs(what)
        if listing(self.scratch) - sb - {'assignment_results'}:
            self._fail('scratch_not_empty_after_return', {'after': what, 'left_behind': sorted(listing(self.scratch) - sb)[:6]})
        for f in shared.iterdir():     # the foreign files are this rule's own; remove them so that later steps start clean
            if f.is_file():
                f.unlink()
        self.dirty = True

    @precondition(lambda self: self.n_obsm < 1)
    @rule(n_processors=st.integers(1, 2))
    def run_mapping_storing_results_in_query(self, n_processors):
        """the one case in which the query file may be written to: obsm_key is set"""
        import anndata
        from pbt import mapping
        self.n_obsm += 1
        self.step += 1
        tag = f'm{self.step}'
        what = ['run_mapping_storing_results_in_query', n_processors]
        self.trace.append(what)
        sb, ob = listing(self.scratch), listing(self.out)
        q = self.ind / 'query.h5ad'
        before = {k: v for k, v in pipeline.h5_content(q, skip=()).items() if k.split('/')[0] in ('X', 'obs', 'var')}
        params = {'n_processors': n_processors}
        a = stage_args('mapping', params, self.ind)
        key = f'cdm_{self.step}'
        cfg = dict(a['cfg'], tmp_name=str(self.scratch), obsm_key=key)
        paths = {'stats': self.ind / 'stats.h5', 'query': q, 'markers': self.ind / 'markers.json'}
        o = mapping.run(self.out, paths, cfg, out_prefix=tag)
        if not o.ok:
            self._fail('successful_run_raised', {'step': what, 'error': f'{type(o.error).__name__}: {str(o.error)[:300]}'})
        after = {k: v for k, v in pipeline.h5_content(q, skip=()).items() if k.split('/')[0] in ('X', 'obs', 'var')}
        if before != after:
            self._fail('query_data_changed_while_storing_results', {'step': what, 'differing': [k for k in before if before[k] != after.get(k)][:5]})
        with quiet():
            ad = anndata.read_h5ad(q, backed='r')
            df = ad.obsm[key]
            obs_index = [str(x) for x in ad.obs.index]
            df_index = [str(x) for x in df.index]
            cols = {c: [str(v) for v in df[c].values] for c in df.columns if c.endswith('_label')}
            ad.file.close()
        if df_index != obs_index:
            self._fail('stored_results_not_in_obs_order', {'step': what})
        for lv in TREE['hierarchy']:
            want = [r[lv]['assignment'] for r in o.out['results']]
            if cols.get(f'{lv}_label') != want:
                self._fail('stored_results_differ_from_json', {'step': what, 'level': lv})
        # every other input untouched; the query's new digest is the reference from now on
        self.in_digests['query.h5ad'] = digest_file(q)
        self._check_inputs(what)
        self._check_scratch(sb, what, strict=True)
        self._check_outputs(ob, tag, what)
        want = baseline('mapping', params)
        got = stage_runner.digest_results(o.out)
        diff = [k for k in sorted(set(want) | set(got)) if want.get(k) != got.get(k)]
        if diff:
            self._fail('result_depends_on_history', {'step': what, 'differing': diff})

    @precondition(lambda self: self.n_plant < 2)
    @rule(where=st.sampled_from(['scratch', 'out']), idx=st.lists(st.integers(0, len(STALE_PATTERNS) - 1), min_size=1, max_size=6, unique=True),
          content=st.sampled_from(['garbage', 'plausible']))
    def plant_stale(self, where, idx, content):
        self.n_plant += 1
        self.step += 1
        what = ['plant_stale', where, [STALE_PATTERNS[i] for i in idx], content]
        self.trace.append(what)
        base = self.scratch if where == 'scratch' else self.out
        for i in idx:
            p = base / STALE_PATTERNS[i]
            if '.' in p.name:
                p.parent.mkdir(parents=True, exist_ok=True)
                if p.suffix == '.json' and content == 'plausible':
                    p.write_text(json.dumps([{'cell_id': 'q0', 'class': {'assignment': 'B', 'bootstrapping_probability': 1.0,
                                                                        'avg_correlation': 0.5, 'runner_up_assignment': [],
                                                                        'runner_up_correlation': [], 'runner_up_probability': [],
                                                                        'aggregate_probability': 1.0}}]))
                else:
                    p.write_bytes(b'stale garbage \x00\x01')
            else:
                p.mkdir(parents=True, exist_ok=True)
        self.dirty = True

    @rule(stage_a=st.sampled_from(STAGES), stage_b=st.sampled_from(STAGES), pa=st.integers(1, 2), pb=st.integers(1, 2),
          same_stage=st.booleans(), ca=st.sampled_from([1, 3, 8]), cb=st.sampled_from([1, 3, 8]))
    def concurrent_pair(self, stage_a, stage_b, pa, pb, same_stage=False, ca=3, cb=3):
        if same_stage:
            # two runs of the same stage are the ones most likely to collide on scratch names
            stage_b = stage_a
        self.step += 1
        what = ['concurrent_pair', stage_a, pa, stage_b, pb, ca, cb]
        self.trace.append(what)
        sb, ob = listing(self.scratch), listing(self.out)
        barrier = str(self.root / f'barrier_{self.step}')
        env = dict(os.environ)
        env['PYTHONPATH'] = f'{REPO_DIR}/src:{VERIF_DIR}'
        env['TMPDIR'] = str(self.systmp)
        env.pop('CELL_TYPE_MAPPER_VERIF_TRACE', None)
        procs = []
        for tag, stage, p, c in ((f'ca{self.step}', stage_a, pa, ca), (f'cb{self.step}', stage_b, pb, cb)):
            prm = {'n_processors': p}
            if stage == 'mapping':
                prm['chunk_size'] = c      # different chunking = different run length for the two mappings
            a = dict(stage_args(stage, prm, self.ind), work=str(self.out), tmp=str(self.scratch), tag=tag, barrier=barrier)
            procs.append((stage, prm, subprocess.Popen([sys.executable, '-m', 'pbt.stage_runner', json.dumps(a)], env=env, cwd=str(VERIF_DIR),
                                                     stdout=subprocess.PIPE, stderr=subprocess.PIPE, text=True)))
        t0 = time.time()
        while len(list(self.root.glob(f'barrier_{self.step}.ready*'))) < 2 and time.time() - t0 < 60:
            time.sleep(0.01)
        pathlib.Path(barrier).write_text('go')
        results = []
        for stage, prm, pr in procs:
            so, se = pr.communicate(timeout=600)
            dg = None
            for line in so.splitlines()[::-1]:
                if line.startswith('DIGEST '):
                    dg = json.loads(line[7:])
                    break
            if dg is None:
                self._fail('concurrent_run_failed', {'step': what, 'stage': stage, 'stderr': se[-600:]})
            results.append((stage, prm, dg))
        for f in self.root.glob(f'barrier_{self.step}*'):
            f.unlink()
        for stage, prm, dg in results:
            if 'error' in dg:
                self._fail('concurrent_run_failed', {'step': what, 'stage': stage, 'error': dg['error']})
            want = baseline(stage, prm)
            diff = [k for k in sorted(set(want) | set(dg)) if want.get(k) != dg.get(k)]
            if diff:
                self._fail('result_depends_on_concurrent_run', {'step': what, 'stage': stage, 'differing': diff[:6]})
        self._check_inputs(what)
        self._check_scratch(sb, what, strict=True)
        self._check_outputs(ob, 'c', what)
        self.nontrivial = True


STATS = {'histories': 0, 'nontrivial': set(), 'classes': {}, 'samples': []}
FAILS = []


def run_stateful(tier, seed, shard, n_shards, out):
    n_hist = {'quick': 3, 'thorough': 40}[tier]
    steps = {'quick': 6, 'thorough': 10}[tier]
    fixture()
    machine = hypothesis.seed(derive_seed(seed, shard))(History)
    t0 = time.time()
    # a fixed family of histories first: two concurrent mapping runs of different length sharing scratch and
    # output directories (the pair most exposed to fixed temporary names), one history per shard
    combos = [(1, 2, 1, 8), (2, 1, 8, 1), (1, 1, 1, 3), (2, 2, 3, 8)]
    pa, pb, ca, cb = combos[shard % len(combos)]
    m = History()
    try:
        try:
            m.concurrent_pair(stage_a='mapping', stage_b='mapping', pa=pa, pb=pb, same_stage=True, ca=ca, cb=cb)
        except Fail:
            pass
    finally:
        m.teardown()
    try:
        run_state_machine_as_test(machine, settings=settings(
            max_examples=n_hist, stateful_step_count=steps, deadline=None, database=None,
            report_multiple_bugs=False, suppress_health_check=list(HealthCheck),
            phases=[hypothesis.Phase.generate, hypothesis.Phase.shrink] if tier == 'thorough' else [hypothesis.Phase.generate]))
    except BaseException as e:
        if isinstance(e, KeyboardInterrupt):
            raise
        if not FAILS:
            raise
    if FAILS and False:
        pass
    out['evaluations'] += STATS['histories']
    out['nontrivial'] += sorted(STATS['nontrivial'])
    for k, v in STATS['classes'].items():
        out['classes'][k] = out['classes'].get(k, 0) + v
    out['samples'] += STATS['samples'][:2]
    if FAILS:
        best = min(FAILS, key=lambda f: len(json.dumps(f['spec'])))
        out['violations'].append(best)


def check(spec):
    """replay of a recorded history (list of rule calls)"""
    from pbt.core import Case
    fixture()
    m = History()
    try:
        for step in spec['history']:
            name = step[0]
            try:
                if name == 'run_ok':
                    m.run_ok(stage=step[1], n_processors=step[2]['n_processors'], small_budget='max_gb' in step[2],
                             gene_subset=step[2].get('genes', []), no_tmp=bool(step[2].get('no_tmp')))
                elif name == 'run_injected_failure':
                    m.run_injected_failure(stage=step[1], worker=step[2], mode=step[3], point=step[4], at=step[5])
                elif name == 'run_invalid_mapping':
                    m.run_invalid_mapping(kind=step[1])
                elif name == 'plant_stale':
                    m.plant_stale(where=step[1], idx=[STALE_PATTERNS.index(x) for x in step[2]], content=step[3])
                elif name == 'run_mapping_storing_results_in_query':
                    m.run_mapping_storing_results_in_query(n_processors=step[1])
                elif name == 'run_type_assignment_with_shared_results_dir':
                    m.run_type_assignment_with_shared_results_dir(chunk_size=step[1], n_processors=step[2], foreign=step[3])
                elif name == 'concurrent_pair':
                    m.concurrent_pair(stage_a=step[1], pa=step[2], stage_b=step[3], pb=step[4],
                                      ca=step[5] if len(step) > 5 else 3, cb=step[6] if len(step) > 6 else 3)
            except Fail:
                f = FAILS[-1]
                raise Violation(f['clause'], f['detail'])
    finally:
        m.teardown()
    return Case(m.nontrivial, [s[0] for s in spec['history']])
