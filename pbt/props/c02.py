"""C02 - assignments are the plurality of bootstrapped nearest-centroid votes."""
import json

import hypothesis.strategies as st
import numpy as np

from pbt import gen, mapping, materialize, treemodel, refmodel
from pbt.core import Case, Violation, sandbox
from pbt.props import common

ID = 'C02'
LEVEL = 'exploration'
TECHNIQUE = 'property-based testing (Hypothesis): run_mapping vs. an independent extended-precision reference model of the vote, fed with the traced bootstrap subsets (guarded hook); trace-free at factor 1'
RULE = ('cases = generated mapping inputs with independent gene orders for query and reference, any bootstrap factor / iteration count / runner-up count; '
        'every (cell, voted node with >=2 children) is recomputed from the input files and the traced subsets; '
        'non-trivial = the case contains a decided node (no correlation tie within tolerance) where >=2 distinct children received votes, '
        'or a node with factor<1 and >=3 genes; distinct = distinct spec hash')
RULE += '; 1 case in 12 has 257-300 leaves below one parent'
ASSUMPTIONS = ['correlation ties within 1e-9 (5e-5 for float32 input) are compared on feasibility bounds only and counted as ambiguous',
               'the guarded trace reports the subsets actually drawn (a change that uses other subsets than it reports shows up as a vote mismatch)']


def budget(tier):
    return {'quick': 800, 'thorough': 12000}[tier]


@st.composite
def strategy_(draw):
    if draw(st.integers(0, 11)) == 0:
        # more leaves below one parent than a one-byte index can address (257-300), few cells per chunk
        tree = draw(gen.trees(max_levels=2, max_leaves=300, min_leaves=257, mappers=False))
        return draw(gen.map_cases(tree=tree, max_cells=4, max_iter=12, allow_flatten=True, allow_drop=True))
    return draw(gen.map_cases(max_cells=8, max_leaves=9, max_iter=300))


def strategy(tier):
    return strategy_()


KNOWN_TRIGGERS = common.MAP_KNOWN_TRIGGERS


def exclude(spec):
    return common.map_excluded(spec, ID)


def sample_view(spec):
    return common.map_sample_view(spec)


def parse_trace(trace):
    """-> {cell_id: chunk_tuple}, {(chunk_tuple, parent_json): {'genes','subsets','factor'}}"""
    cell2chunk, visits = {}, {}
    for proc in trace or []:
        chunk = None
        cur = None
        for e in proc:
            if e['kind'] == 'chunk':
                chunk = tuple(e['cells'])
                for c in chunk:
                    cell2chunk[c] = chunk
            elif e['kind'] == 'node':
                p = e['parent']
                pj = json.dumps(list(p) if p is not None else None)
                cur = {'genes': e['genes'], 'subsets': [], 'factor': e.get('bootstrap_factor'), 'n_cells': e.get('n_cells')}
                visits[(chunk, pj)] = cur
            elif e['kind'] == 'subset' and cur is not None:
                cur['subsets'].append(e['idx'])
    return cell2chunk, visits


def check(spec):
    cfg = spec['cfg']
    with sandbox() as d:
        paths = materialize.write_map_case(d, spec)
        o = mapping.run(d, paths, cfg, trace=True)
        if not o.ok:
            raise Violation('run_raised', f'{type(o.error).__name__}: {str(o.error)[:400]}')
        out = o.out
        trace = o.trace
    stats = check_votes(spec, out, trace)
    classes = []
    if stats['decided']:
        classes.append('has_decided_node')
    if stats['ambiguous']:
        classes.append('has_ambiguous_node')
    if stats['split']:
        classes.append('votes_split')
    if stats['sub_lt1']:
        classes.append('factor_lt_1')
    if cfg.get('bootstrap_factor_lookup'):
        classes.append('per_level_factor_lookup')
    elif cfg['bootstrap_factor'] == 1.0:
        classes.append('factor_1')
    if stats['runner_up_checked']:
        classes.append('runner_up_checked')
    if len(treemodel.Tree(spec['tree']).leaves()) > 256:
        classes.append('more_than_256_leaves')
    nontrivial = stats['split'] > 0 or stats['sub_lt1'] > 0
    return Case(nontrivial, classes, info={'node_checks': stats['decided'], 'ambiguous_nodes': stats['ambiguous'],
                                            'subsets_checked': stats['subsets']})


def check_votes(spec, out, trace, require_trace=True):
    cfg = spec['cfg']
    vt_data = refmodel.voting_tree(spec)
    vt = treemodel.Tree(vt_data)
    model = refmodel.VoteModel(spec)
    tol = model.tol
    n_iter = cfg['bootstrap_iteration']
    nru = cfg['n_runners_up']
    cell2chunk, visits = parse_trace(trace)
    stats = {'decided': 0, 'ambiguous': 0, 'split': 0, 'sub_lt1': 0, 'subsets': 0, 'runner_up_checked': 0}
    checked_visits = set()
    for r in out['results']:
        cid = r['cell_id']
        ci = model.cell_index[cid]
        parent = None
        for lv in vt.h:
            rec = r[lv]
            kids = vt.children(parent)
            key = 'None' if parent is None else f'{parent[0]}/{parent[1]}'
            if rec['assignment'] not in kids:
                raise Violation('assignment_not_child', {'cell': cid, 'level': lv, 'got': rec['assignment'], 'kids': kids})
            if len(kids) >= 2:
                factor = refmodel.factor_at(cfg, parent)
                pj = json.dumps(list(parent) if parent is not None else None)
                v = None
                if trace is not None and cid in cell2chunk:
                    v = visits.get((cell2chunk[cid], pj))
                if v is None:
                    if factor != 1.0 or require_trace and trace is not None:
                        raise Violation('trace_missing_visit', {'cell': cid, 'parent': parent})
                    genes = list(out['marker_genes'][key])
                    subsets = [list(range(len(genes)))] * n_iter
                else:
                    genes = v['genes']
                    subsets = v['subsets']
                    n = len(genes)
                    if (cell2chunk[cid], pj) not in checked_visits:
                        checked_visits.add((cell2chunk[cid], pj))
                        if len(set(genes)) != n:
                            raise Violation('node_genes_duplicate', {'parent': parent, 'genes': genes})
                        if len(subsets) != n_iter:
                            raise Violation('iteration_count', {'parent': parent, 'drawn': len(subsets), 'want': n_iter})
                        fn = factor * n
                        ok_sizes = {max(1, int(np.floor(fn + 0.5)))}
                        if abs(fn - np.floor(fn) - 0.5) < 1e-9:
                            ok_sizes |= {max(1, int(np.floor(fn))), max(1, int(np.ceil(fn)))}
                        for S in subsets:
                            stats['subsets'] += 1
                            if len(set(S)) != len(S):
                                raise Violation('subset_has_duplicates', {'parent': parent, 'subset': S})
                            if len(S) not in ok_sizes:
                                raise Violation('subset_size', {'parent': parent, 'size': len(S), 'n': n, 'factor': factor})
                            if any(s < 0 or s >= n for s in S):
                                raise Violation('subset_range', {'parent': parent, 'subset': S, 'n': n})
                        if set(genes) != set(out['marker_genes'][key]):
                            raise Violation('node_genes_vs_reported', {'parent': parent, 'used': genes, 'reported': out['marker_genes'][key]})
                for g in genes:
                    if g not in model.qcol or g not in model.rcol:
                        raise Violation('gene_not_shared', {'parent': parent, 'gene': g})
                m = model.node(ci, vt, parent, genes, subsets)
                _compare(cid, lv, rec, m, n_iter, nru, max(tol, m.get('tol', tol)), stats)
                if factor < 1.0 and len(genes) >= 3:
                    stats['sub_lt1'] += 1
            parent = (lv, rec['assignment'])
    return stats


def _compare(cid, lv, rec, m, n_iter, nru, tol, stats):
    lo, hi, csum = m['lo'], m['hi'], m['csum']
    ctx = {'cell': cid, 'level': lv}
    names = [rec['assignment']] + list(rec['runner_up_assignment'])
    probs = [rec['bootstrapping_probability']] + list(rec['runner_up_probability'])
    corrs = [rec['avg_correlation']] + list(rec['runner_up_correlation'])
    if not (len(names) == len(probs) == len(corrs)):
        raise Violation('runner_up_lengths', ctx)
    if len(set(names)) != len(names):
        raise Violation('runner_up_duplicates', dict(ctx, names=names))
    votes = {}
    for k, p in zip(names, probs):
        if k not in lo:
            raise Violation('reported_non_child', dict(ctx, name=k))
        nv = p * n_iter
        if abs(nv - round(nv)) > 1e-9:
            raise Violation('probability_not_vote_share', dict(ctx, name=k, p=p))
        nv = int(round(nv))
        votes[k] = nv
        if not (lo[k] <= nv <= hi[k]):
            raise Violation('vote_count', dict(ctx, name=k, reported=nv, model_lo=lo[k], model_hi=hi[k]))
    if m['ambiguous']:
        stats['ambiguous'] += 1
        return
    stats['decided'] += 1
    mx = max(lo.values())
    w = rec['assignment']
    if lo[w] != mx:
        raise Violation('winner_not_plurality', dict(ctx, winner=w, votes=lo))
    if abs(corrs[0] - csum[w] / lo[w]) > max(tol, 1e-9):
        raise Violation('avg_correlation', dict(ctx, reported=corrs[0], model=csum[w] / lo[w]))
    getters = [k for k in lo if lo[k] > 0 and k != w]
    want_n = min(nru, len(getters))
    if len(names) - 1 != want_n:
        raise Violation('runner_up_count', dict(ctx, reported=names[1:], votes=lo, requested=nru))
    last = None
    for k, c in zip(names[1:], corrs[1:]):
        if lo[k] <= 0:
            raise Violation('runner_up_without_votes', dict(ctx, name=k))
        if last is not None and lo[k] > last:
            raise Violation('runner_up_order', dict(ctx, names=names, votes=lo))
        last = lo[k]
        if abs(c - csum[k] / lo[k]) > max(tol, 1e-9):
            raise Violation('runner_up_correlation', dict(ctx, name=k, reported=c, model=csum[k] / lo[k]))
        stats['runner_up_checked'] += 1
    omitted = [k for k in getters if k not in names]
    if omitted and names[1:]:
        if max(lo[k] for k in omitted) > min(lo[k] for k in names[1:]):
            raise Violation('runner_up_truncation', dict(ctx, names=names, votes=lo))
    if len(getters) >= 1:
        stats['split'] += 1
