"""C16 - validation rewrites identifiers and integers without altering the data.

validate_h5ad is called directly (the argschema CLI cannot be constructed here) on a small generated
h5ad file; everything the statement promises is then read back from the files with anndata / h5py
and compared with a reference model that only uses the spec, the shipped gene tables (data) and
exact rational arithmetic.

C16_NO_EXCLUDE=1 switches the exclusion of the still unrepaired trigger regions off.
"""
import hashlib
import json
import os
import pathlib
from fractions import Fraction

import anndata
import h5py
import numpy as np
import scipy.sparse as sp

from pbt import gen_c16 as g
from pbt import materialize
from pbt.core import Case, Violation, Inconclusive, sandbox, quiet, known_for

ID = 'C16'
LEVEL = 'exploration'
TECHNIQUE = ('property-based testing (Hypothesis) of validate_h5ad on generated h5ad files plus a deterministic grid aimed at '
             'every integer-type edge, against a reference model of the statement (exact rational comparison of every entry, '
             'gene renaming derived from the shipped lookup tables, sha256 of the input, directory census)')
RULE = ('cases = (a) deterministic files for every rejection reason and for "nothing to do" (66) and an aimed grid: each of the %d boundary values as the extreme of a 3x5 matrix x {csr, csc, dense} '
        '(thorough: x {X, layer} x {default, re-chunked} x {float64, float32}); (b) generated files: 1-8 cells x 1-11 genes, '
        'float32/float64/int32/int64/uint8/uint16/uint32 values (integers stored as floats, fractions, negatives, boundary spikes), '
        'csr/csc/dense, default / re-chunked / contiguous HDF5 layouts, X or a named layer, gene lists mixing real and random Ensembl ids '
        '(with and without version), known symbols of the real mouse/human tables (incl. symbols containing a dot) and unknown names '
        '(plain, case variants of known symbols, symbol + suffix, odd strings), rounding on/off, mapper given / built from the species name / '
        'inferred, output by path or by directory, scratch dir given or not, with/without CommandLog, and a share of files that must be '
        'rejected (duplicate cell id, duplicate/empty gene name, two genes -> one identifier). '
        'non-trivial = the matrix contains a boundary value OR >=2 identifier kinds (Ensembl / versioned Ensembl / symbol / unknown) are '
        'mixed; distinct = distinct spec hash' % len(g.BOUNDARY))
RULE += '; additions: one GeneIdMapper object shared by the cases of a shard process (half of the cases), named obs / var indexes'
ASSUMPTIONS = [
    'input domain: >=1 gene is an Ensembl id or a known symbol (otherwise "Could not map any of your genes" is raised by design); '
    'with an inferred mapper >=1 gene is a *known* Ensembl id or symbol; genes of one species only (no name of the file occurs in '
    'the other species\' table)',
    'an "Ensembl identifier" is a real stable gene id of the species (ENSMUSG/ENSG + 11 digits, optional .version); names that only '
    'look like one to the package\'s loose pattern (e.g. the human symbols ENSAP1, ENSAP3, which the package keeps unchanged) are never '
    'generated and are inconclusive to the oracle',
    'non-integers are >= 1e-7 away from an integer (the code treats |x - round(x)| <= 1e-10 as integer); a spec with a distance below 1e-9 is inconclusive, and so is one whose only reason for a new file would be distances of 1e-9..1e-6',
    'values stay below 2^33 in magnitude; no NaN/inf',
    'rounding direction at exact halves is not asserted (only |delta| <= 1/2 and integrality)',
    'when rounding is requested but every value is already integer-valued the matrix must be exactly unchanged; its dtype may stay as it was',
    'placeholder names are never compared literally (they contain a timestamp): only that exactly the unknown names are replaced, by names '
    'that are new and unique within the file',
    'has_warnings, log text, HDF5 chunk shapes / compression and the encoding of the output matrix are not asserted; uns/obsm/other layers '
    'of the input are not part of the statement',
    'trigger regions of the still unrepaired defects (UNREPAIRED below) are excluded by construction and counted',
]
EXHAUSTIVE = {'quick': False, 'thorough': False}

# Trigger regions of defects that are not yet repaired in /repo: they are removed from the search (and counted) so that it
# continues behind them.  Remove a name once its fix from /verif/proposed_fixes/C16_<name>.diff is applied - the replay in
# /verif/regressions/C16 then guards it.  ('sparse_matrix_without_stored_value' and 'sparse_arrays_contiguous' - D10, repaired
# through the C13 fixes 589b65c, fbc4188, 5f252ee - stay in KNOWN_TRIGGERS only for their regression files.)
UNREPAIRED = set()   # two repairs applied in /repo; 'renamed_gene_name_contains_slash' is a recorded known finding (known_findings.json)


def budget(tier):
    return {'quick': 1600, 'thorough': 32000}[tier]


def strategy(tier):
    return g.cases(tier)


# ----------------------------------------------------------------------------- known trigger regions
def _nnz(spec):
    x = g.expand_x(spec['x'], len(spec['cells']), len(spec['genes']))
    return int((x != 0).sum())


def _t_sparse_empty(spec):
    return spec['enc'] in ('csr', 'csc') and _nnz(spec) == 0


def _t_sparse_contiguous(spec):
    return spec['enc'] in ('csr', 'csc') and spec['layout'] == 'contiguous'


def _t_is_sparse_empty_contiguous(spec):
    """_is_sparse_x_integers on a float 'data' array of length zero that is stored contiguously (chunks None -> step 0);
    pbt.materialize.rechunk_h5ad writes zero-length arrays contiguously, anndata itself writes them chunked"""
    return (spec['enc'] in ('csr', 'csc') and spec['round'] and np.dtype(spec['x']['dtype']).kind == 'f'
            and spec['layout'] != 'default' and _nnz(spec) == 0)


def _t_float32_edge(spec):
    """choose_int_dtype compares a float32 extreme with the integer limits in float32: 2^32 passes for '<= 4294967295'
    (uint32 chosen, min >= 0) and 2^31 for '<= 2147483647' (int32 chosen, -2^31 <= min < 0) -> the value wraps"""
    if spec['x']['dtype'] != 'float32' or not spec['round']:
        return False
    x = g.expand_x(spec['x'], len(spec['cells']), len(spec['genes']))
    if not np.any(x != np.round(x)):
        return False
    lo, hi = float(np.round(x.min())), float(np.round(x.max()))
    return (lo >= 0 and hi == 2.0**32) or (-2.0**31 <= lo < 0 and hi == 2.0**31)


def _t_slash(spec):
    """a renamed gene whose name contains '/' cannot be a key of the uns mapping group"""
    return any('/' in nm and g.reference_mapping(spec['species'], nm)[0] != 'ens' for nm in spec['genes'])


KNOWN_TRIGGERS = {
    'sparse_matrix_without_stored_value': _t_sparse_empty,
    'sparse_arrays_contiguous': _t_sparse_contiguous,
    'is_sparse_x_integers_no_stored_value': _t_is_sparse_empty_contiguous,
    'float32_extreme_at_int32_uint32_edge': _t_float32_edge,
    'renamed_gene_name_contains_slash': _t_slash,
}

_ACTIVE = None


def active_triggers():
    global _ACTIVE
    if _ACTIVE is None:
        if os.environ.get('C16_NO_EXCLUDE'):
            _ACTIVE = []
        else:
            names = set(UNREPAIRED)
            for k in known_for(ID):
                names.add(k.get('trigger'))
            _ACTIVE = sorted(n for n in names if n in KNOWN_TRIGGERS)
    return _ACTIVE


def exclude(spec):
    return any(KNOWN_TRIGGERS[n](spec) for n in active_triggers())


def enumerate_specs(tier):
    return [s for s in g.fixed_specs() + g.aimed_specs(tier) if not exclude(s)]


def sample_view(spec):
    n, m = len(spec['cells']), len(spec['genes'])
    v = {k: spec[k] for k in ('species', 'mapper', 'genes', 'enc', 'layer', 'layout', 'round', 'out', 'tmp', 'label')}
    v['shape'] = [n, m]
    v['x'] = {k: spec['x'][k] for k in ('dtype', 'family', 'max', 'density', 'neg', 'spikes', 'seed') if k in spec['x']}
    return v


# ----------------------------------------------------------------------------- helpers
def _sha(p):
    return hashlib.sha256(pathlib.Path(p).read_bytes()).hexdigest()


def _census(root):
    root = pathlib.Path(root)
    return sorted(str(p.relative_to(root)) for p in root.rglob('*'))


def _make_sparse_contiguous(path, key):
    with h5py.File(path, 'a') as f:
        grp = f[key]
        for name in ('data', 'indices', 'indptr'):
            arr = grp[name][()]
            attrs = dict(grp[name].attrs)
            del grp[name]
            d = grp.create_dataset(name, data=arr)
            for k, v in attrs.items():
                d.attrs[k] = v


def _obs_columns(cells):
    n = len(cells)
    return {'lab': [f'q{(i * 7) % 3}' for i in range(n)],
            'n_umi': [int(100 + 13 * i) for i in range(n)],
            'score': [float(i) / 4.0 - 0.5 for i in range(n)]}


def _var_columns(genes):
    m = len(genes)
    return {'pos': [int(j) for j in range(m)], 'tag': [f't{j % 2}' for j in range(m)]}


def _write_input(path, spec, x):
    cells, genes = spec['cells'], spec['genes']
    layout = spec['layout']
    rechunk = None if layout in ('default', 'contiguous') else layout
    ph = np.full(x.shape, 7.25, dtype=np.float32)       # what sits in X when the data is in a layer
    with quiet():
        materialize.write_h5ad(path, x, cells, genes, enc=spec['enc'], layer=spec['layer'],
                               obs_cols=_obs_columns(cells), var_cols=_var_columns(genes),
                               rechunk=rechunk, x_placeholder=ph,
                               obs_index_name=spec.get('obs_index_name'), var_index_name=spec.get('var_index_name'))
    if layout == 'contiguous' and spec['enc'] != 'dense':
        _make_sparse_contiguous(path, 'X' if spec['layer'] is None else f'layers/{spec["layer"]}')


_SHARED_MAPPERS = {}


def _make_mapper(spec):
    from cell_type_mapper.gene_id.gene_id_mapper import GeneIdMapper
    if spec['mapper'] == 'inferred':
        return None
    if spec.get('shared_mapper'):
        key = (spec['mapper'], spec['species'])
        if key not in _SHARED_MAPPERS:
            _SHARED_MAPPERS[key] = _make_mapper(dict(spec, shared_mapper=False))
        return _SHARED_MAPPERS[key]
    if spec['mapper'] == 'from_species':
        return GeneIdMapper.from_species(spec['species'])
    return GeneIdMapper.from_mouse() if spec['species'] == 'mouse' else GeneIdMapper.from_human()


def _to_dense(m):
    return m.toarray() if sp.issparse(m) else np.asarray(m)


# ----------------------------------------------------------------------------- reference model
def model(spec, x):
    """everything the statement lets us predict, from the spec alone"""
    species = spec['species']
    genes, cells = spec['genes'], spec['cells']
    ref = [g.reference_mapping(species, nm) for nm in genes]
    kinds = [k for k, _ in ref]
    if 'grey' in kinds:
        raise Inconclusive('a gene name in the grey zone of "looks like an Ensembl id"')
    other = g.ALL_NAMES[g.OTHER[species]]
    if any((nm.split('.')[0] if nm.startswith('ENS') else nm) in other for nm in genes):
        raise Inconclusive('names of two species')
    n_mappable = sum(k in ('ens', 'sym') for k in kinds)
    n_known = sum(1 for nm in genes if g._is_known(species, nm))
    reject = []
    if len(set(cells)) != len(cells):
        reject.append('duplicate_cell_id')
    if len(set(genes)) != len(genes):
        reject.append('duplicate_gene_name')
    if '' in genes:
        reject.append('empty_gene_name')
    targets = [t for _, t in ref if t is not None]
    if len(set(targets)) != len(targets):
        reject.append('two_genes_one_identifier')
    if not reject:
        if n_mappable == 0 or (spec['mapper'] == 'inferred' and n_known == 0):
            raise Inconclusive('outside the input domain: no mappable gene')
    # rounding
    is_float = x.dtype.kind == 'f'
    needs_round = False
    if is_float:
        if not np.all(np.isfinite(x)) or np.abs(x).max(initial=0) >= 2.0**33 + 2:
            raise Inconclusive('values outside the domain')
        dist = np.abs(x.astype(np.longdouble) - np.round(x.astype(np.longdouble)))
        if np.any((dist > 0) & (dist < 1e-9)):
            raise Inconclusive('a value in the is-it-an-integer tolerance band')
        renamed0 = any((k == 'unk') or (k in ('ens', 'sym') and t != nm) for (k, t), nm in zip(ref, genes))
        if np.any((dist > 0) & (dist < 1e-6)) and spec['round'] and not (spec['layer'] is not None or renamed0):
            # round-off sized distances (1e-9 .. 1e-6): whether such a file "needs no change" is a matter of the
            # tolerance; when a file has to be written anyway, the statement applies in full (integers, integer type)
            raise Inconclusive('only round-off sized fractions, and no other reason to write a file')
        needs_round = bool(spec['round'] and np.any(dist > 0))
    renamed = any((k == 'unk') or (k in ('ens', 'sym') and t != nm) for (k, t), nm in zip(ref, genes))
    need_file = (spec['layer'] is not None) or renamed or needs_round
    return {'ref': ref, 'kinds': kinds, 'reject': reject, 'needs_round': needs_round, 'renamed': renamed,
            'need_file': need_file, 'n_unknown': sum(k == 'unk' for k in kinds)}


def _kind_class(species, nm, k):
    if k == 'ens':
        return 'gene_ens_versioned' if '.' in nm else 'gene_ens'
    if k == 'sym':
        return 'gene_symbol_with_dot' if '.' in nm else 'gene_symbol'
    if nm.lower() in g.LOWER_SYM[species]:
        return 'gene_unknown_case_variant'
    return 'gene_unknown'


# ----------------------------------------------------------------------------- the check
def check(spec):
    from cell_type_mapper.validation.validate_h5ad import validate_h5ad
    species = spec['species']
    genes, cells = list(spec['genes']), list(spec['cells'])
    n, m = len(cells), len(genes)
    x = g.expand_x(spec['x'], n, m)
    mod = model(spec, x)
    classes = ['mapper_object_shared_between_files'] if spec.get('shared_mapper') else []

    with sandbox() as d:
        d = pathlib.Path(d)
        for sub in ('in', 'tmp', 'out'):
            (d / sub).mkdir()
        src = d / 'in' / 'sample.h5ad'
        _write_input(src, spec, x)
        h0 = _sha(src)
        kwargs = dict(h5ad_path=str(src), gene_id_mapper=_make_mapper(spec),
                      layer=spec['layer'] if spec['layer'] is not None else 'X',
                      round_to_int=bool(spec['round']), expected_max=spec.get('expected_max', 20),
                      tmp_dir=str(d / 'tmp') if spec['tmp'] else None)
        if spec['out'] == 'path':
            kwargs['valid_h5ad_path'] = str(d / 'out' / 'valid.h5ad')
        else:
            kwargs['output_dir'] = str(d / 'out')
        if spec.get('log'):
            from cell_type_mapper.cli.cli_log import CommandLog
            kwargs['log'] = CommandLog()
        raised = None
        result = None
        with quiet():
            try:
                result = validate_h5ad(**kwargs)
            except Exception as e:    # "raises" is an observation here
                raised = e

        # ---- the input is never modified
        if not src.exists() or _sha(src) != h0:
            raise Violation('input_modified', 'sha256 of the input file changed')

        ctx = {'genes': genes, 'enc': spec['enc'], 'layer': spec['layer'], 'layout': spec['layout'], 'round': spec['round'],
               'dtype': str(x.dtype)}

        # ---- rejected inputs
        if mod['reject']:
            if raised is None:
                raise Violation('not_rejected', dict(ctx, expected=mod['reject'], cells=cells, result=str(result)))
            left = _census(d / 'out') + _census(d / 'tmp') + _census(d / 'systmp')
            if left:
                raise Violation('leftover_after_rejection', left)
            classes += ['result_rejected'] + ['reject_' + r for r in mod['reject']]
            return Case(True, classes + _common_classes(spec, x, mod))

        if raised is not None:
            raise Violation('run_raised', dict(ctx, error=f'{type(raised).__name__}: {str(raised)[:500]}'))

        if not (isinstance(result, tuple) and len(result) == 2):
            raise Violation('return_convention', repr(result))
        out_path = result[0]

        # ---- scratch space is clean, only the returned file exists
        left = _census(d / 'tmp') + _census(d / 'systmp')
        if left:
            raise Violation('scratch_not_clean', left)
        if _census(d / 'in') != ['sample.h5ad']:
            raise Violation('input_dir_polluted', _census(d / 'in'))
        out_files = _census(d / 'out')

        if not mod['need_file']:
            if out_path is not None:
                raise Violation('file_written_without_need', dict(ctx, returned=str(out_path)))
            if out_files:
                raise Violation('file_written_without_need', dict(ctx, files=out_files))
            classes.append('result_none')
            return Case(_nontrivial(spec, x, mod), classes + _common_classes(spec, x, mod))

        if out_path is None:
            raise Violation('no_file_although_needed', dict(ctx, needs_round=mod['needs_round'], renamed=mod['renamed']))
        out_path = pathlib.Path(out_path)
        if not out_path.is_file():
            raise Violation('returned_path_missing', str(out_path))
        if spec['out'] == 'path' and out_path.resolve() != (d / 'out' / 'valid.h5ad').resolve():
            raise Violation('returned_path_wrong', str(out_path))
        if out_path.resolve().parent != (d / 'out').resolve():
            raise Violation('returned_path_wrong', str(out_path))
        if out_files != [out_path.name]:
            raise Violation('extra_files_in_output_dir', out_files)
        classes.append('result_file')

        with quiet():
            b = anndata.read_h5ad(out_path)

        # ---- cells
        got_cells = [str(c) for c in b.obs.index]
        if got_cells != cells:
            raise Violation('cells_order', {'got': got_cells, 'want': cells})
        want_obs = _obs_columns(cells)
        if sorted(b.obs.columns) != sorted(want_obs):
            raise Violation('obs_columns', {'got': list(b.obs.columns), 'want': list(want_obs)})
        for col, want in want_obs.items():
            got = b.obs[col].tolist()
            if got != want:
                raise Violation('obs_annotations', {'column': col, 'got': got, 'want': want})

        # ---- genes
        got_genes = [str(v) for v in b.var.index]
        if len(got_genes) != m:
            raise Violation('gene_count', {'got': len(got_genes), 'want': m})
        placeholders = []
        for j, (nm, (k, tgt), got) in enumerate(zip(genes, mod['ref'], got_genes)):
            if k in ('ens', 'sym'):
                if got != tgt:
                    raise Violation('gene_identifier', {'position': j, 'input': nm, 'kind': k, 'got': got, 'want': tgt})
            else:
                placeholders.append(got)
                if got == nm or got in genes:
                    raise Violation('unknown_gene_not_replaced', {'position': j, 'input': nm, 'got': got})
                if g.reference_mapping(species, got)[0] != 'unk' or got in g.EVERY_NAME:
                    raise Violation('placeholder_is_a_real_identifier', {'position': j, 'input': nm, 'got': got})
        if len(set(got_genes)) != m:
            raise Violation('gene_identifiers_unique', {'got': got_genes})
        for col, want in _var_columns(genes).items():
            if col not in b.var.columns or b.var[col].tolist() != want:
                raise Violation('gene_order_annotations', {'column': col, 'want': want,
                                                           'got': b.var[col].tolist() if col in b.var.columns else None})

        # ---- recorded renaming
        want_map = {nm: got for nm, got in zip(genes, got_genes) if nm != got}
        got_map = b.uns.get('AIBS_CDM_gene_mapping', None)
        if isinstance(got_map, (str, bytes)):      # a JSON document is also "recorded in the file"
            try:
                got_map = json.loads(got_map)
            except Exception:
                raise Violation('recorded_renaming', {'got': str(got_map)[:300], 'want': want_map})
        got_map = {} if got_map is None else {str(k): str(v) for k, v in dict(got_map).items()}
        if got_map != want_map:
            raise Violation('recorded_renaming', {'got': got_map, 'want': want_map})
        if 'AIBS_CDM_n_mapped_genes' not in b.uns:
            raise Violation('recorded_n_mapped', 'AIBS_CDM_n_mapped_genes missing')
        n_mapped = int(np.asarray(b.uns['AIBS_CDM_n_mapped_genes']).reshape(-1)[0])
        if n_mapped != m - mod['n_unknown']:
            raise Violation('recorded_n_mapped', {'got': n_mapped, 'want': m - mod['n_unknown']})

        # ---- the matrix
        if b.X is None:
            raise Violation('x_missing', 'no X in the validated file')
        y = _to_dense(b.X)
        if y.shape != (n, m):
            raise Violation('x_shape', {'got': list(y.shape), 'want': [n, m]})
        if mod['needs_round']:
            if y.dtype.kind not in 'iu':
                raise Violation('rounded_dtype_not_integer', dict(ctx, got=str(y.dtype)))
            half = Fraction(1, 2)
            for i in range(n):
                for j in range(m):
                    yi = int(y[i, j])
                    xv = Fraction(float(x[i, j]))
                    if abs(Fraction(yi) - xv) > half:
                        raise Violation('rounded_value_off', dict(ctx, cell=i, gene=j, input=float(x[i, j]), got=yi,
                                                                  out_dtype=str(y.dtype),
                                                                  matrix_min=float(x.min()), matrix_max=float(x.max())))
            classes += ['rounded', 'outdtype_' + str(y.dtype)]
        else:
            same_dtype = (y.dtype == x.dtype)
            if not same_dtype and not (spec['round'] and y.dtype.kind in 'iu'):
                raise Violation('x_dtype_changed', dict(ctx, got=str(y.dtype)))
            if y.dtype.kind == 'f':
                eq = np.array_equal(y, x)
            else:
                eq = [int(v) for v in y.ravel()] == [int(v) for v in x.ravel()]
            if not eq:
                raise Violation('x_changed', dict(ctx, got=y.tolist(), want=x.tolist()))
            classes.append('x_copied_unchanged')

    return Case(_nontrivial(spec, x, mod), classes + _common_classes(spec, x, mod))


def _has_boundary(x):
    return bool(any(float(v) in g.BOUNDARY_SET for v in x.ravel()))


def _nontrivial(spec, x, mod):
    groups = set()
    for nm, k in zip(spec['genes'], mod['kinds']):
        groups.add('ensv' if (k == 'ens' and '.' in nm) else k)
    return _has_boundary(x) or len(groups) >= 2


def _common_classes(spec, x, mod):
    c = ['enc_' + spec['enc'], 'layer_named' if spec['layer'] is not None else 'layer_X',
         'dtype_' + str(x.dtype), 'round_on' if spec['round'] else 'round_off',
         'mapper_' + spec['mapper'], 'species_' + spec['species'], 'out_' + spec['out'],
         'tmp_given' if spec['tmp'] else 'tmp_system']
    lay = spec['layout']
    c.append('layout_' + (lay if isinstance(lay, str) else 'rechunked'))
    for cl in sorted({_kind_class(spec['species'], nm, k) for nm, k in zip(spec['genes'], mod['kinds'])}):
        c.append(cl)
    if mod['n_unknown'] >= 2:
        c.append('unknown_genes_ge2')
    if _has_boundary(x):
        c.append('boundary_value_present')
    if x.dtype.kind == 'f':
        fr = x != np.round(x)
        c.append('values_fractional' if fr.any() else 'values_integers_as_float')
        if np.any(np.abs(x - np.trunc(x)) == 0.5):
            c.append('values_exact_half')
    if (x < 0).any():
        c.append('values_negative')
    if not (x != 0).any():
        c.append('matrix_all_zero')
    if spec.get('log'):
        c.append('with_command_log')
    mx = float(np.abs(x).max(initial=0))
    c.append('magnitude_' + ('le_255' if mx <= 255.5 else 'le_65535' if mx <= 65535.5 else 'le_2^32' if mx <= 2.0**32 else 'gt_2^32'))
    return c
