"""C01 - every query cell gets one complete, ordered, tree-consistent assignment."""
import copy
import math

import hypothesis.strategies as st

from pbt import gen, mapping, materialize, treemodel
from pbt.core import Case, Violation, sandbox
from pbt.props import common

ID = 'C01'
LEVEL = 'exploration'
TECHNIQUE = 'property-based testing (Hypothesis) of run_mapping against a validity predicate from an independent tree model, plus bounded-exhaustive tree shapes'
RULE = ('cases = generated (taxonomy, reference profiles, root-usable marker table, query matrix, configuration) '
        'plus every uniform-depth tree shape with <=4 levels and <=6 leaves; non-trivial = the query is processed in >=2 chunks '
        'AND (the taxonomy has >=2 levels OR flatten/drop_level is active); distinct = distinct spec hash')
ASSUMPTIONS = ['every non-leaf node has >=1 child; gene names unique; cell ids unique strings',
               'known-finding trigger regions are excluded by construction and counted']
EXHAUSTIVE = {'quick': False, 'thorough': True}


def budget(tier):
    return {'quick': 320, 'thorough': 6000}[tier]


@st.composite
def strategy_(draw):
    mode = draw(st.integers(0, 15))
    if mode == 0:
        # a wide taxonomy (more than 128 nodes at one level)
        tree = draw(gen.trees(max_levels=2, max_leaves=180, min_leaves=130))
        spec = dict(draw(gen.map_cases(tree=tree, max_cells=5)))
    else:
        spec = dict(draw(gen.map_cases()))
    if mode == 1:
        # many cells: chunk boundaries with 1-, 2- and 3-digit row numbers
        n_big = draw(st.integers(100, 160))
        spec['query'] = dict(spec['query'], cells=[f'c{i}' for i in range(n_big)], zero_rows=[])
        spec['cfg'] = dict(spec['cfg'], chunk_size=draw(st.sampled_from([7, 10, 33, 50, 99])),
                           n_processors=draw(st.integers(1, 4)), bootstrap_iteration=2)
    spec['driver'] = draw(st.sampled_from(['run_mapping', 'run_mapping', 'run_mapping', 'direct_manager', 'direct_buffer']))
    if mode == 2:
        # many small chunks under a modest budget of file descriptors (the soft RLIMIT_NOFILE is lowered to the
        # descriptors open at the start of the run + 64): what a run holds open must not grow with the number of chunks
        n_big = draw(st.integers(90, 140))
        spec['query'] = dict(spec['query'], cells=[f'c{i}' for i in range(n_big)], zero_rows=[])
        spec['cfg'] = dict(spec['cfg'], chunk_size=1, n_processors=draw(st.integers(1, 3)), bootstrap_iteration=1,
                           fd_headroom=64)
        spec['driver'] = 'run_mapping'
    return spec


def strategy(tier):
    return strategy_()


def enumerate_specs(tier):
    shapes = treemodel.all_shapes(4, 6)
    out = []
    for i, sh in enumerate(shapes):
        if tier == 'quick':
            naming = 'plain' if i % 2 == 0 else 'scrambled'
            tree = treemodel.shape_to_tree(sh, naming)
            h = tree['hierarchy']
            mode = i % 3
            if mode == 1 and len(h) > 1:
                out.append(gen.derived_case(tree, i, drop_level=h[i % (len(h) - 1)]))
            elif mode == 2:
                out.append(gen.derived_case(tree, i, flatten=True))
            else:
                out.append(gen.derived_case(tree, i))
        else:
            for naming in ('plain', 'scrambled'):
                tree = treemodel.shape_to_tree(sh, naming)
                h = tree['hierarchy']
                out.append(gen.derived_case(tree, i))
                out.append(gen.derived_case(tree, i + 1000, flatten=True))
                for lv in h[:-1]:
                    out.append(gen.derived_case(tree, i + 2000, drop_level=lv))
    return out


KNOWN_TRIGGERS = common.MAP_KNOWN_TRIGGERS


def exclude(spec):
    return common.map_excluded(spec, ID)


def sample_view(spec):
    return common.map_sample_view(spec)


def check_direct(spec):
    """second driver: the return value of run_type_assignment_on_h5ad (voting tree only)"""
    from pbt import refmodel
    with sandbox() as d:
        paths = materialize.write_map_case(d, spec)
        res, err = mapping.run_direct(d, paths, spec, use_buffer_dir=(spec['driver'] == 'direct_buffer'))
    if err is not None:
        raise Violation('run_raised', f'{type(err).__name__}: {str(err)[:400]}')
    vspec = copy.deepcopy(spec)
    vspec['tree'] = refmodel.voting_tree(spec)
    vspec['cfg'] = dict(spec['cfg'], flatten=False, drop_level=None)
    return check_results(vspec, res)


def check(spec):
    if spec.get('driver', 'run_mapping') != 'run_mapping':
        classes = check_direct(spec) + [spec['driver']]
        n = len(spec['query']['cells'])
        cfg = spec['cfg']
        eff = min(max(1, math.ceil(n / cfg['n_processors'])), cfg['chunk_size'])
        return Case(n > eff and (len(spec['tree']['hierarchy']) >= 2), classes + ['multi_chunk' if n > eff else 'single_chunk'])
    with sandbox() as d:
        paths = materialize.write_map_case(d, spec)
        o = mapping.run(d, paths, spec['cfg'])
        if not o.ok:
            raise Violation('run_raised', f'{type(o.error).__name__}: {str(o.error)[:400]}')
        if o.out is None or 'results' not in o.out:
            raise Violation('no_results', 'successful run without results')
        classes = check_results(spec, o.out['results'])
    n = len(spec['query']['cells'])
    cfg = spec['cfg']
    eff = min(max(1, math.ceil(n / cfg['n_processors'])), cfg['chunk_size'])
    h = spec['tree']['hierarchy']
    active_drop = cfg.get('drop_level') in h[:-1]
    nontrivial = (n > eff) and (len(h) >= 2 or cfg['flatten'] or active_drop)
    classes.append('multi_chunk' if n > eff else 'single_chunk')
    classes.append(f'levels_{len(h)}')
    if cfg['flatten']:
        classes.append('flatten')
    if active_drop:
        classes.append('drop_top' if cfg['drop_level'] == h[0] else 'drop_mid')
    classes.append('enc_' + spec['query']['enc'])
    if max(len(spec['tree'][lv]) for lv in h) > 128:
        classes.append('level_with_more_than_128_nodes')
    if n >= 100:
        classes.append('query_of_100_or_more_cells')
    return Case(nontrivial, classes)


def check_results(spec, results):
    """the validity predicate (shared with other checks)"""
    t = treemodel.Tree(spec['tree'])
    h = t.h
    cfg = spec['cfg']
    cells = [str(c) for c in spec['query']['cells']]
    classes = []
    if not isinstance(results, list) or len(results) != len(cells):
        raise Violation('record_count', f'{len(results)} records for {len(cells)} cells')
    got = [r.get('cell_id') for r in results]
    if got != cells:
        raise Violation('cell_order', {'got': got[:10], 'want': cells[:10]})
    if cfg['flatten']:
        voted = {h[-1]}
    elif cfg.get('drop_level') in h[:-1]:
        voted = set(h) - {cfg['drop_level']}
    else:
        voted = set(h)
    for r in results:
        keys = set(r.keys()) - {'cell_id'}
        if keys != set(h):
            raise Violation('levels_present', {'cell': r['cell_id'], 'keys': sorted(keys), 'hierarchy': h})
        prev = None
        for lv in h:
            rec = r[lv]
            a = rec.get('assignment')
            if a not in spec['tree'][lv]:
                raise Violation('assignment_is_node', {'cell': r['cell_id'], 'level': lv, 'assignment': a})
            if prev is not None:
                if a not in spec['tree'][prev[0]][prev[1]]:
                    raise Violation('path_consistent', {'cell': r['cell_id'], 'level': lv, 'assignment': a, 'parent': prev})
            prev = (lv, a)
            da = rec.get('directly_assigned')
            if (lv in voted) != bool(da) or da is None:
                raise Violation('directly_assigned_flag', {'cell': r['cell_id'], 'level': lv, 'flag': da, 'voted': lv in voted})
    if len(set(r[h[-1]]['assignment'] for r in results)) > 1:
        classes.append('several_leaves_assigned')
    return classes
