"""C09 - reference statistics equal direct computation and are additive."""
import copy
import itertools
import json
import math
import pathlib
from fractions import Fraction

import h5py
import numpy as np

from pbt import gen_c09, materialize, treemodel
from pbt.core import Case, Violation, sandbox, quiet

ID = 'C09'
LEVEL = 'exploration'
TECHNIQUE = ('property-based testing (Hypothesis) + a deterministic boundary family: the statistics writers (label-column route, single file + row-number tree, '
             'file list + cell-name tree), truncate_precomputed_stats_file, merge_precompute_files and read_precomputed_stats vs. an exact-rational / longdouble '
             'direct computation per cluster x gene, plus the metamorphic relation between re-layouts of the same cells')
RULE = ('cases = generated (taxonomy, per-cell labels incl. unlabelled cells / empty leaves / one-cell clusters, count or log2CPM matrix with rows that hit '
        'CPM == 0, CPM == 1, the ge1 band and both sides of it on purpose, 2-3 layouts of the same cells over 1-4 files x encodings x rows_at_a_time x n_processors '
        'on any of the three routes, optional split into datasets for the merge) plus an enumerated family (every special row kind x dtype x worker count x chunk size); '
        'every written file is compared with direct computation and with the baseline layout, every order-preserving sub-hierarchy is truncated; '
        'non-trivial = in some layout a cluster has member cells in >=2 chunks or files that are handled by >=2 workers; distinct = distinct spec hash')
RULE += '; additions: a cluster of 254-300 cells, named obs / var indexes'
ASSUMPTIONS = ['all files of one run share one gene order (the writers reject anything else)',
               'every cell named by the taxonomy is present in exactly one file (documented requirement of the file-list route)',
               'entries with log2(CPM+1) in (1-2e-6, 1) may be counted either way by ge1 (implementation counts > 1-1e-6); they are counted as band',
               'sums are compared at 1e-12 relative (1e-5 for float32 input, which is normalised in float32)',
               'merge inputs are per-dataset files made by the library from one taxonomy and one file list (cell_set), as the ABC command-line tool does']
STAT_KEYS = ('sum', 'sumsq', 'gt0', 'gt1', 'ge1')


def budget(tier):
    return {'quick': 384, 'thorough': 8000}[tier]


def strategy(tier):
    if tier == 'thorough':
        return gen_c09.cases(max_cells=30, max_genes=9, max_leaves=9)
    return gen_c09.cases()


def enumerate_specs(tier):
    """deterministic boundary family: every special row kind (CPM == 0, CPM == 1, ge1 band, just outside the band,
    just above 1) x every dtype x worker counts x chunk sizes, on a small scrambled two-level tree"""
    tree = {'hierarchy': ['class', 'cluster'],
            'class': {'k_b': ['c_z', 'c_m'], 'k_a': ['c_a']},
            'cluster': {'c_z': [], 'c_m': [], 'c_a': []}}
    out = []
    procs, rats = ((1, 3), (1, 3)) if tier == 'quick' else ((1, 2, 3, 4), (1, 2, 3, 5, 12))
    for kind, dtypes, kinds in (('raw', gen_c09.RAW_DTYPES, ['rand', 'zero', 'cpm1', 'cpm1_band', 'cpm1_lo', 'cpm1_hi', 'big', 'cpm1', 'rand', 'cpm1']),
                                ('log2', gen_c09.LOG_DTYPES, ['rand', 'zero', 'one', 'band', 'lo', 'hi', 'rand', 'one', 'rand', 'one'])):
        for di, dt in enumerate(dtypes):
            for npr in procs:
                for rat in rats:
                    n = len(kinds)
                    labels = [0, 1, 2, 0, 0, -1, 1, 0, 2, 0]
                    k = di * 100 + npr * 10 + rat
                    a = [(i * 7 + k) % n for i in range(n)]
                    a = sorted(range(n), key=lambda i: (a[i], i))
                    lab_idx = [i for i in range(n) if labels[i] >= 0]
                    parts = [
                        {'route': 'tree', 'files': [{'enc': ('csr', 'csc', 'dense')[k % 3], 'rows': a[:4]},
                                                    {'enc': ('csc', 'dense', 'csr')[k % 3], 'rows': a[4:]}],
                         'rows_at_a_time': rat, 'n_processors': npr, 'tmp_dir': True},
                        {'route': 'columns', 'files': [{'enc': ('dense', 'csr', 'csc')[k % 3], 'rows': lab_idx[::-1]}],
                         'rows_at_a_time': rat + 1, 'n_processors': 1 + npr % 4, 'tmp_dir': True},
                        {'route': 'rows', 'files': [{'enc': 'csr', 'rows': list(range(n))}],
                         'rows_at_a_time': n + 2, 'n_processors': 1, 'tmp_dir': False}]
                    out.append({'tree': tree, 'genes': ['g2', 'g0', 'g1', 'g3'], 'cells': [f'c{i}' for i in range(n)],
                                'labels': labels, 'cells_as_int': False,
                                'x': {'kind': kind, 'dtype': dt, 'seed': k, 'max_count': 40, 'density': 0.7, 'rows': kinds},
                                'parts': parts, 'datasets': [i % 2 for i in range(n)], 'ds_metadata': bool(k % 2)})
    return out


def sample_view(spec):
    return {'hierarchy': spec['tree']['hierarchy'], 'n_leaves': len(spec['tree'][spec['tree']['hierarchy'][-1]]),
            'labels': spec['labels'], 'n_genes': len(spec['genes']),
            'x': {k: v for k, v in spec['x'].items() if k != 'values'},
            'parts': [{'route': p['route'], 'files': [(f['enc'], f['rows']) for f in p['files']],
                       'rows_at_a_time': p['rows_at_a_time'], 'n_processors': p['n_processors']} for p in spec['parts']],
            'datasets': spec['datasets']}


# ---------------------------------------------------------------- oracle: per-cell values
LD = np.longdouble
BAND_LO = LD(1) - LD(2e-6)


class CellValues(object):
    """exact per-cell quantities: v = log2(CPM+1) (longdouble), CPM>0, CPM>1, CPM>=1, and the entries
    on which the implementation's float arithmetic may legitimately decide otherwise"""

    def __init__(self, x, kind):
        n, g = x.shape
        self.f32 = x.dtype == np.float32
        self.v = np.zeros((n, g), dtype=LD)
        self.gt0 = np.zeros((n, g), dtype=bool)
        self.gt1 = np.zeros((n, g), dtype=bool)
        self.ge1 = np.zeros((n, g), dtype=bool)
        self.band_ge1 = np.zeros((n, g), dtype=bool)
        self.band_gt1 = np.zeros((n, g), dtype=bool)
        self.cpm_is_1 = 0
        if kind == 'raw':
            for i in range(n):
                row = [int(v) for v in x[i]]
                if any(float(v) != int(v) for v in x[i]):
                    raise ValueError('raw matrix must be integer valued')
                tot = sum(row) or 1
                for j in range(g):
                    cpm = Fraction(row[j] * 10 ** 6, tot)
                    val = np.log2(LD(1) + LD(cpm.numerator) / LD(cpm.denominator))
                    self.v[i, j] = val
                    self.gt0[i, j] = cpm > 0
                    self.gt1[i, j] = cpm > 1
                    self.ge1[i, j] = cpm >= 1
                    self.cpm_is_1 += cpm == 1
                    self.band_ge1[i, j] = cpm < 1 and val > BAND_LO
                    if cpm != 1:
                        # float rounding of CPM (2 ulp) must not be able to cross 1
                        margin = 5e-7 if self.f32 else 1e-12
                        self.band_gt1[i, j] = abs(float(cpm) - 1.0) < margin
        else:
            self.v[:, :] = x.astype(LD)
            self.gt0 = np.asarray(x > 0)
            self.gt1 = np.asarray(x > 1)
            self.ge1 = np.asarray(x >= 1)
            self.cpm_is_1 = int((x == 1).sum())
            self.band_ge1 = np.asarray((x < 1) & (self.v > BAND_LO))
        self.rel = 1e-5 if self.f32 else 1e-12

    def aggregate(self, groups):
        """groups: dict name -> list of cell indices; -> dict name -> stats"""
        g = self.v.shape[1]
        out = {}
        for name, idx in groups.items():
            idx = list(idx)
            if idx:
                v = self.v[idx]
                o = {'n': len(idx), 'sum': v.sum(axis=0), 'sumsq': (v * v).sum(axis=0),
                     'gt0': self.gt0[idx].sum(axis=0), 'gt1_lo': (self.gt1[idx] & ~self.band_gt1[idx]).sum(axis=0),
                     'gt1_hi': (self.gt1[idx] | self.band_gt1[idx]).sum(axis=0),
                     'ge1_lo': self.ge1[idx].sum(axis=0), 'ge1_hi': (self.ge1[idx] | self.band_ge1[idx]).sum(axis=0)}
            else:
                z = np.zeros(g, dtype=int)
                o = {'n': 0, 'sum': np.zeros(g, dtype=LD), 'sumsq': np.zeros(g, dtype=LD), 'gt0': z,
                     'gt1_lo': z, 'gt1_hi': z, 'ge1_lo': z, 'ge1_hi': z}
            out[name] = o
        return out


# ---------------------------------------------------------------- model of the labelling
class Labelling(object):
    def __init__(self, spec):
        self.spec = spec
        self.tree0 = spec['tree']
        self.h = list(self.tree0['hierarchy'])
        self.leaf_names = list(self.tree0[self.h[-1]].keys())
        self.t0 = treemodel.Tree(self.tree0)
        self.labels = spec['labels']
        self.cells = [str(c) for c in spec['cells']]
        self.lab_idx = [i for i, lb in enumerate(self.labels) if lb >= 0]

    def leaf_of(self, i):
        lb = self.labels[i]
        return None if lb < 0 else self.leaf_names[lb]

    def cell_token(self, i):
        c = self.cells[i]
        return int(c) if self.spec.get('cells_as_int') else c

    def tree_route_taxonomy(self):
        """the input taxonomy of the file-list + tree route: the full tree, leaves listing cell names"""
        t = copy.deepcopy(self.tree0)
        lv = self.h[-1]
        t[lv] = {leaf: [] for leaf in self.tree0[lv]}
        for i in self.lab_idx:
            t[lv][self.leaf_of(i)].append(self.cell_token(i))
        return t

    def rows_route_taxonomy(self, rows):
        """single file + tree: the full tree, leaves listing the row numbers of their cells in that file"""
        t = copy.deepcopy(self.tree0)
        lv = self.h[-1]
        t[lv] = {leaf: [] for leaf in self.tree0[lv]}
        for pos, i in enumerate(rows):
            if self.labels[i] >= 0:
                t[lv][self.leaf_of(i)].append(pos)
        return t

    def column_route_taxonomy(self, rows):
        """what the label columns of a file with these cells (in this order) say: only nodes that occur"""
        t = {'hierarchy': list(self.h)}
        for lv in self.h:
            t[lv] = {}
        for pos, i in enumerate(rows):
            path = self.t0.path_of_leaf(self.leaf_of(i))
            t[self.h[-1]].setdefault(path[self.h[-1]], []).append(pos)
            for pl, cl in zip(self.h[:-1], self.h[1:]):
                kids = t[pl].setdefault(path[pl], [])
                if path[cl] not in kids:
                    kids.append(path[cl])
        return t

    def groups_at(self, level, node_names):
        """dict node -> cell indices of the labelled cells below it"""
        out = {nm: [] for nm in node_names}
        for i in self.lab_idx:
            out[self.t0.ancestor_at(self.leaf_of(i), level)].append(i)
        return out


# ---------------------------------------------------------------- running the library
def _lib():
    from cell_type_mapper.diff_exp import precompute_from_anndata as pfa
    from cell_type_mapper.diff_exp.truncate_precompute import truncate_precomputed_stats_file
    from cell_type_mapper.diff_exp.precompute_utils import merge_precompute_files
    from cell_type_mapper.diff_exp.score_utils import read_precomputed_stats
    from cell_type_mapper.taxonomy.taxonomy_tree import TaxonomyTree
    return pfa, truncate_precomputed_stats_file, merge_precompute_files, read_precomputed_stats, TaxonomyTree


def part_file_path(d, tag, fi, part):
    """files of one layout either sit side by side under distinct names, or (layout 'same_names') carry the
    same base name in one directory per file, as per-donor exports do"""
    if part.get('same_names'):
        sub = d / f'{tag}_donor{fi}'
        sub.mkdir(exist_ok=True)
        return sub / 'expression.h5ad'
    return d / f'{tag}_f{fi}.h5ad'


def write_part_files(d, tag, part, spec, lab, x):
    paths = []
    for fi, f in enumerate(part['files']):
        rows = f['rows']
        obs_cols = None
        if part['route'] == 'columns':
            obs_cols = {lv: [] for lv in lab.h}
            for i in rows:
                path = lab.t0.path_of_leaf(lab.leaf_of(i))
                for lv in lab.h:
                    obs_cols[lv].append(path[lv])
            obs_cols['unrelated'] = [f'u{k % 3}' for k in range(len(rows))]
        p = part_file_path(d, tag, fi, part)
        with quiet():
            materialize.write_h5ad(p, x[rows], [lab.cells[i] for i in rows], spec['genes'], enc=f['enc'], obs_cols=obs_cols,
                                   obs_index_name=spec.get('obs_index_name'), var_index_name=spec.get('var_index_name'))
        paths.append(p)
    return paths


def run_part(d, tag, part, spec, lab, paths, cell_set=None):
    """-> path of the statistics file; library exceptions become violations"""
    pfa, _, _, _, TaxonomyTree = _lib()
    out = d / f'{tag}_stats.h5'
    tmp = d / f'{tag}_tmp'
    tmp.mkdir(exist_ok=True)
    norm = 'raw' if spec['x']['kind'] == 'raw' else 'log2CPM'
    tmp_arg = str(tmp) if part.get('tmp_dir', True) else None
    try:
        with quiet():
            if part['route'] == 'columns':
                pfa.precompute_summary_stats_from_h5ad(
                    data_path=paths[0], column_hierarchy=list(lab.h), taxonomy_tree=None, output_path=out,
                    rows_at_a_time=part['rows_at_a_time'], normalization=norm, tmp_dir=tmp_arg,
                    n_processors=part['n_processors'])
            elif part['route'] == 'rows':
                tt = TaxonomyTree(data=lab.rows_route_taxonomy(part['files'][0]['rows']))
                pfa.precompute_summary_stats_from_h5ad(
                    data_path=paths[0], column_hierarchy=None, taxonomy_tree=tt, output_path=out,
                    rows_at_a_time=part['rows_at_a_time'], normalization=norm, tmp_dir=tmp_arg,
                    n_processors=part['n_processors'])
            else:
                tt = TaxonomyTree(data=lab.tree_route_taxonomy())
                pfa.precompute_summary_stats_from_h5ad_list_and_tree(
                    data_path_list=list(paths), taxonomy_tree=tt, output_path=out,
                    rows_at_a_time=part['rows_at_a_time'], normalization=norm, tmp_dir=tmp_arg,
                    n_processors=part['n_processors'], cell_set=cell_set,
                    copy_data_over=bool(part.get('copy_data_over', False)))
    except Exception as e:  # noqa
        raise Violation('writer_raised', {'part': tag, 'error': f'{type(e).__name__}: {str(e)[:300]}'})
    return out


def read_stats(path, what):
    with h5py.File(path, 'r') as f:
        keys = set(f.keys())
        need = {'cluster_to_row', 'col_names', 'taxonomy_tree', 'n_cells'} | set(STAT_KEYS)
        if not need <= keys:
            raise Violation('datasets_missing', {'file': what, 'missing': sorted(need - keys)})
        out = {k: f[k][()] for k in ('n_cells',) + STAT_KEYS}
        out['cluster_to_row'] = json.loads(f['cluster_to_row'][()].decode('utf-8'))
        out['col_names'] = json.loads(f['col_names'][()].decode('utf-8'))
        out['taxonomy_tree'] = json.loads(f['taxonomy_tree'][()].decode('utf-8'))
        out['keys'] = keys
    return out


# ---------------------------------------------------------------- comparisons
def check_tables(st, what, clusters, genes):
    c2r = st['cluster_to_row']
    if st['col_names'] != list(genes):
        raise Violation('col_names', {'file': what, 'got': st['col_names'], 'want': list(genes)})
    if set(c2r.keys()) != set(clusters):
        raise Violation('cluster_to_row_keys', {'file': what, 'got': sorted(c2r), 'want': sorted(clusters)})
    rows = sorted(c2r.values())
    if rows != list(range(len(clusters))):
        raise Violation('cluster_to_row_not_a_bijection', {'file': what, 'rows': rows})
    nc, ng = len(clusters), len(genes)
    if st['n_cells'].shape != (nc,):
        raise Violation('array_shape', {'file': what, 'dataset': 'n_cells', 'shape': st['n_cells'].shape})
    for k in STAT_KEYS:
        if st[k].shape != (nc, ng):
            raise Violation('array_shape', {'file': what, 'dataset': k, 'shape': st[k].shape})
    for k in ('n_cells', 'gt0', 'gt1', 'ge1'):
        if st[k].dtype.kind not in 'iu':
            raise Violation('count_dtype', {'file': what, 'dataset': k, 'dtype': str(st[k].dtype)})


def _close(got, want, rel):
    got = np.asarray(got, dtype=LD)
    want = np.asarray(want, dtype=LD)
    return bool(np.all(np.abs(got - want) <= LD(rel) * np.abs(want)))


def compare_with_oracle(st, what, agg, rel, info):
    """st: statistics (dict with arrays + cluster_to_row); agg: oracle per cluster"""
    c2r = st['cluster_to_row']
    for cl, o in agg.items():
        r = c2r[cl]
        ctx = {'file': what, 'cluster': cl, 'row': r}
        if int(st['n_cells'][r]) != o['n']:
            raise Violation('n_cells', dict(ctx, got=int(st['n_cells'][r]), want=o['n']))
        if not np.array_equal(st['gt0'][r], o['gt0']):
            raise Violation('gt0', dict(ctx, got=st['gt0'][r].tolist(), want=o['gt0'].tolist()))
        for k in ('gt1', 'ge1'):
            got = st[k][r]
            if np.any(got < o[k + '_lo']) or np.any(got > o[k + '_hi']):
                raise Violation(k, dict(ctx, got=got.tolist(), want_lo=o[k + '_lo'].tolist(), want_hi=o[k + '_hi'].tolist()))
            info['band_entries'] = info.get('band_entries', 0) + int((o[k + '_hi'] - o[k + '_lo']).sum())
        for k in ('sum', 'sumsq'):
            if not _close(st[k][r], o[k], rel):
                raise Violation(k, dict(ctx, got=st[k][r].tolist(), want=[float(v) for v in o[k]], rel=rel))
        info['cluster_rows_checked'] = info.get('cluster_rows_checked', 0) + 1


def compare_files(sa, sb, what, rel):
    """same cells, other layout: counts identical, sums to rounding; clusters missing on one side hold no cell"""
    ca, cb = sa['cluster_to_row'], sb['cluster_to_row']
    for cl in set(ca) | set(cb):
        if cl not in ca or cl not in cb:
            s, c = (sa, ca) if cl in ca else (sb, cb)
            if int(s['n_cells'][c[cl]]) != 0:
                raise Violation('partition_cluster_missing', {'pair': what, 'cluster': cl})
            continue
        ra, rb = ca[cl], cb[cl]
        ctx = {'pair': what, 'cluster': cl}
        if int(sa['n_cells'][ra]) != int(sb['n_cells'][rb]):
            raise Violation('partition_n_cells', dict(ctx, a=int(sa['n_cells'][ra]), b=int(sb['n_cells'][rb])))
        for k in ('gt0', 'gt1', 'ge1'):
            if not np.array_equal(sa[k][ra], sb[k][rb]):
                raise Violation('partition_' + k, dict(ctx, a=sa[k][ra].tolist(), b=sb[k][rb].tolist()))
        for k in ('sum', 'sumsq'):
            a, b = sa[k][ra].astype(LD), sb[k][rb].astype(LD)
            if not bool(np.all(np.abs(a - b) <= LD(rel) * np.maximum(np.abs(a), np.abs(b)))):
                raise Violation('partition_' + k, dict(ctx, a=sa[k][ra].tolist(), b=sb[k][rb].tolist(), rel=rel))


def strip_meta(t):
    return {k: v for k, v in t.items() if k != 'metadata'}


def structure(t):
    """hierarchy + child sets + leaf cell sets (order inside a child list is not part of a taxonomy)"""
    h = list(t['hierarchy'])
    out = {'hierarchy': h}
    for lv in h:
        out[lv] = {n: sorted((str(type(c).__name__), str(c)) for c in kids) for n, kids in t[lv].items()}
    return out


def check_taxonomy(st, what, want, exact):
    got = strip_meta(st['taxonomy_tree'])
    if exact:
        if got != strip_meta(want):
            raise Violation('taxonomy_differs', {'file': what, 'got': got, 'want': strip_meta(want)})
    else:
        keys = set(got.keys()) - set(treemodel.META_KEYS)
        if keys != set(want['hierarchy']) | {'hierarchy'} or structure(got) != structure(want):
            raise Violation('taxonomy_differs', {'file': what, 'got': got, 'want': want})


# ---------------------------------------------------------------- classification helpers (not part of the oracle)
def work_split(part, named):
    """which worker handles which cell, following the documented rule 'at most n_processors lists of (file, r0, r1)'"""
    files = [f for f in part['files'] if any(i in named for i in f['rows'])]
    n_total = sum(len(f['rows']) for f in files)
    n_proc = part['n_processors']
    n_per = math.ceil(n_total / n_proc) if n_total else 1
    worker, acc = 0, 0
    cell_worker, cell_chunk = {}, {}
    ck = 0
    for fi, f in enumerate(files):
        rows = f['rows']
        for r0 in range(0, len(rows), part['rows_at_a_time']):
            r1 = min(len(rows), r0 + part['rows_at_a_time'])
            for i in rows[r0:r1]:
                cell_worker[i] = worker
                cell_chunk[i] = ck
            ck += 1
            acc += r1 - r0
            if acc > n_per:
                worker, acc = worker + 1, 0
    return cell_worker, cell_chunk


def sub_hierarchies(h):
    out = []
    for k in range(1, len(h)):
        for comb in itertools.combinations(range(len(h)), k):
            out.append([h[i] for i in comb])
    return out


def model_subtree(full, new_h):
    """own model of the taxonomy restricted to the levels new_h (order preserved): children = descendants at the next kept level"""
    t = treemodel.Tree(full)
    out = {'hierarchy': list(new_h)}
    idx = {lv: i for i, lv in enumerate(t.h)}

    def descend(level, node, target):
        if level == target:
            return [node]
        res = []
        for c in full[level][node]:
            res += descend(t.h[idx[level] + 1], c, target)
        return res
    for a, b in zip(new_h[:-1], new_h[1:]):
        out[a] = {n: descend(a, n, b) for n in full[a]}
    last = new_h[-1]
    if last == t.h[-1]:
        out[last] = {n: list(c) for n, c in full[last].items()}
    else:
        out[last] = {}
        for n in full[last]:
            cells = []
            for leaf in descend(last, n, t.h[-1]):
                cells += list(full[t.h[-1]][leaf])
            out[last][n] = cells
    return out


# ---------------------------------------------------------------- the check
def check(spec):
    lab = Labelling(spec)
    x = gen_c09.expand_x(spec)
    kind = spec['x']['kind']
    cv = CellValues(x, kind)
    rel = cv.rel
    info = {}
    classes = ['kind_' + kind, 'dtype_' + spec['x']['dtype']]
    leaf_groups_all = {nm: [] for nm in lab.leaf_names}
    for i in lab.lab_idx:
        leaf_groups_all[lab.leaf_of(i)].append(i)
    named = set(lab.lab_idx)
    nontrivial = False
    with sandbox() as d:
        d = pathlib.Path(d)
        stats, taxos, paths0 = [], [], None
        for pi, part in enumerate(spec['parts']):
            tag = f'p{pi}'
            paths = write_part_files(d, tag, part, spec, lab, x)
            if pi == 0:
                paths0 = paths
            sp = run_part(d, tag, part, spec, lab, paths)
            st = read_stats(sp, tag)
            if part['route'] == 'columns':
                want_tree = lab.column_route_taxonomy(part['files'][0]['rows'])
                clusters = list(want_tree[lab.h[-1]].keys())
            elif part['route'] == 'rows':
                want_tree = lab.rows_route_taxonomy(part['files'][0]['rows'])
                clusters = lab.leaf_names
            else:
                want_tree = lab.tree_route_taxonomy()
                clusters = lab.leaf_names
            check_tables(st, tag, clusters, spec['genes'])
            check_taxonomy(st, tag, want_tree, exact=(part['route'] != 'columns'))
            agg = cv.aggregate({c: leaf_groups_all[c] for c in clusters})
            compare_with_oracle(st, tag, agg, rel, info)
            stats.append(st)
            taxos.append(want_tree)
            if pi > 0:
                compare_files(stats[0], st, f'p0~{tag}', rel)
            # classification
            cw, cc = work_split(part, named)
            for c in clusters:
                ws = {cw[i] for i in leaf_groups_all[c] if i in cw}
                cs = {cc[i] for i in leaf_groups_all[c] if i in cc}
                if len(ws) >= 2 and len(cs) >= 2:
                    nontrivial = True
            classes.append('route_' + part['route'])
            if part.get('copy_data_over') and part['route'] == 'tree':
                classes.append('copy_data_over')
            if part.get('same_names') and len(part['files']) > 1:
                classes.append('same_base_name_in_several_directories')
            if len(part['files']) > 1:
                classes.append('multi_file')
            if part['route'] == 'tree' and any(not (set(f['rows']) & named) for f in part['files']):
                classes.append('file_without_named_cell')

        # ---- library reader (aggregation to every node of the tree)
        check_reader(d / 'p0_stats.h5', stats[0], taxos[0], lab, cv, rel, info)

        # ---- truncation to every order-preserving sub-hierarchy of the baseline file
        _, truncate, merge, _, _ = _lib()
        base_tree = taxos[0]
        for k, new_h in enumerate(sub_hierarchies(lab.h)):
            tp = d / f'trunc_{k}.h5'
            try:
                with quiet():
                    truncate(input_path=d / 'p0_stats.h5', output_path=tp, new_hierarchy=list(new_h))
            except Exception as e:  # noqa
                raise Violation('truncate_raised', {'new_hierarchy': new_h, 'error': f'{type(e).__name__}: {str(e)[:300]}'})
            what = f'trunc{new_h}'
            ts = read_stats(tp, what)
            want = model_subtree(base_tree, new_h)
            nodes = list(want[new_h[-1]].keys())
            check_tables(ts, what, nodes, spec['genes'])
            check_taxonomy(ts, what, want, exact=False)
            agg = cv.aggregate(lab.groups_at(new_h[-1], nodes))
            compare_with_oracle(ts, what, agg, rel, info)
            info['truncations'] = info.get('truncations', 0) + 1
            if new_h[-1] != lab.h[-1]:
                classes.append('trunc_drops_leaf_level')
            pathlib.Path(tp).unlink()

        # ---- per-dataset files and their merge
        if spec.get('datasets') and any(p['route'] == 'tree' for p in spec['parts']):
            check_merge(d, spec, lab, cv, rel, x, info, classes, merge, paths0)

    # ---- generator classes
    sizes = [len(v) for v in leaf_groups_all.values()]
    if 1 in sizes:
        classes.append('cluster_of_one_cell')
    if sizes and max(sizes) > 255:
        classes.append('cluster_of_more_than_255_cells')
    if 0 in sizes:
        classes.append('empty_leaf')
    if len(lab.lab_idx) < len(lab.labels):
        classes.append('unlabelled_cells')
    if cv.cpm_is_1:
        classes.append('cpm_eq_1')
    if cv.band_ge1.any():
        classes.append('ge1_band_entry')
    if (~cv.gt0).any():
        classes.append('cpm_eq_0')
    if any(len(lab.tree0[lv][n]) == 1 for lv in lab.h[:-1] for n in lab.tree0[lv]):
        classes.append('single_child_node')
    classes.append(f'levels_{len(lab.h)}')
    if nontrivial:
        classes.append('cluster_over_2_workers')
    if spec.get('cells_as_int'):
        classes.append('tree_cells_as_int')
    return Case(nontrivial, sorted(set(classes)), info=info)


def check_reader(path, st, tree, lab, cv, rel, info):
    _, _, _, read_precomputed_stats, TaxonomyTree = _lib()
    try:
        with quiet():
            tt = TaxonomyTree.from_precomputed_stats(path)
            res = read_precomputed_stats(precomputed_stats_path=path, taxonomy_tree=tt, for_marker_selection=True)
    except Exception as e:  # noqa
        raise Violation('reader_raised', f'{type(e).__name__}: {str(e)[:300]}')
    if list(res['gene_names']) != list(lab.spec['genes']):
        raise Violation('reader_gene_names', {'got': list(res['gene_names'])})
    for lv in lab.h:
        nodes = list(tree[lv].keys())
        agg = cv.aggregate(lab.groups_at(lv, nodes))
        for nd in nodes:
            key = f'{lv}/{nd}'
            if key not in res['cluster_stats']:
                raise Violation('reader_node_missing', key)
            got, o = res['cluster_stats'][key], agg[nd]
            ctx = {'node': key}
            if int(got['n_cells']) != o['n']:
                raise Violation('reader_n_cells', dict(ctx, got=int(got['n_cells']), want=o['n']))
            g1 = np.asarray(got['ge1'])
            if np.any(g1 < o['ge1_lo']) or np.any(g1 > o['ge1_hi']):
                raise Violation('reader_ge1', dict(ctx, got=g1.tolist(), want_lo=o['ge1_lo'].tolist()))
            n = max(1, o['n'])
            if not _close(got['mean'], o['sum'] / LD(n), rel):
                raise Violation('reader_mean', dict(ctx, got=np.asarray(got['mean']).tolist(), want=[float(v) for v in o['sum'] / LD(n)]))
            var = (o['sumsq'] - o['sum'] ** 2 / LD(n)) / LD(max(1, o['n'] - 1))
            tol = LD(4 * rel) * (o['sumsq'] + o['sum'] ** 2 / LD(n)) / LD(max(1, o['n'] - 1))
            if not bool(np.all(np.abs(np.asarray(got['var'], dtype=LD) - var) <= tol)):
                raise Violation('reader_var', dict(ctx, got=np.asarray(got['var']).tolist(), want=[float(v) for v in var]))
            info['reader_nodes'] = info.get('reader_nodes', 0) + 1


def check_merge(d, spec, lab, cv, rel, x, info, classes, merge, paths0):
    """per-dataset statistics (cell_set) from one file list and one taxonomy, then merge_precompute_files"""
    part = next(p for p in spec['parts'] if p['route'] == 'tree')
    pi = spec['parts'].index(part)
    if pi == 0:
        paths = paths0
    else:
        paths = [part_file_path(d, f'p{pi}', fi, part) for fi in range(len(part['files']))]
    ds_of = spec['datasets']
    ds_ids = sorted({ds_of[i] for i in lab.lab_idx})
    ds_paths, ds_groups = [], []
    for k in ds_ids:
        members = [i for i in lab.lab_idx if ds_of[i] == k]
        cell_set = {lab.cells[i] for i in members}
        tag = f'ds{k}'
        sp = run_part(d, tag, part, spec, lab, paths, cell_set=cell_set)
        groups = {nm: [i for i in members if lab.leaf_of(i) == nm] for nm in lab.leaf_names}
        st = read_stats(sp, tag)
        check_tables(st, tag, lab.leaf_names, spec['genes'])
        compare_with_oracle(st, tag, cv.aggregate(groups), rel, info)
        if spec.get('ds_metadata'):
            with h5py.File(sp, 'a') as f:
                f.create_dataset('metadata', data=json.dumps({'dataset': k}).encode('utf-8'))
        ds_paths.append(str(sp))
        ds_groups.append(groups)
    out = d / 'merged.h5'
    order = list(ds_paths)[::-1]   # the function sorts its argument; hand it over unsorted
    try:
        with quiet():
            merge(precompute_path_list=list(order), output_path=str(out))
    except Exception as e:  # noqa
        raise Violation('merge_raised', f'{type(e).__name__}: {str(e)[:300]}')
    ms = read_stats(out, 'merged')
    check_tables(ms, 'merged', lab.leaf_names, spec['genes'])
    check_taxonomy(ms, 'merged', lab.tree_route_taxonomy(), exact=True)
    aggs = [cv.aggregate(g) for g in ds_groups]
    distinct_winner = set()
    for cl in lab.leaf_names:
        sizes = [len(g[cl]) for g in ds_groups]
        best = [k for k, s in enumerate(sizes) if s == max(sizes)]
        errs = []
        for k in best:
            try:
                compare_with_oracle(ms, 'merged', {cl: aggs[k][cl]}, rel, {})
                errs = None
                break
            except Violation as v:
                errs.append({'dataset': ds_ids[k], 'clause': v.clause, 'detail': v.detail})
        if errs is not None:
            raise Violation('merge_row_not_from_largest_dataset', {'cluster': cl, 'sizes': dict(zip(map(str, ds_ids), sizes)), 'tried': errs})
        if len(best) == 1:
            distinct_winner.add(best[0])
        info['merge_rows'] = info.get('merge_rows', 0) + 1
    classes.append('merge')
    if len(distinct_winner) >= 2:
        classes.append('merge_rows_from_2_datasets')
