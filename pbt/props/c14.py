"""C14 - a failed worker fails the run; no partial result passes as success."""
import json
import os
import pathlib
import shutil
import signal
import tempfile
import time
import traceback

import h5py

from pbt import inject, mapping, materialize, pipeline
from pbt.core import Case, Violation, Inconclusive, quiet, scratch_root

ID = 'C14'
LEVEL = 'fault_enumeration'
TECHNIQUE = 'fault injection enumerated over (stage x dispatched worker x failure mode x crash point) through a multiprocessing.Process subclass (SIGKILL / exit 3 / exception; before / deterministic mid-way call-event / after), delivery confirmed by marker file; oracle = caller raises and no acceptable output remains'
RULE = ('cases = every (input, stage in {mapping, statistics, reference markers, query marker selection, p-value mask, mask->markers, parallel transposition}, '
        'dispatched worker, failure mode in {kill, exit, raise}, crash point in {before, mid, after}) on small generated inputs; mid-way = a deterministic call-event index '
        'measured by a dry run (N/2 in quick, a 5-point grid in thorough); a case counts as non-trivial only when fault delivery was confirmed by the marker file; '
        'distinct = distinct (input, stage, worker, mode, point, quantile)')
RULE += '; the mapping stage additionally with the destination sets CSV only / obsm only / JSON only / HDF5+CSV'
ASSUMPTIONS = ['hangs (case timeout 120 s) are reported as inconclusive, never as violations',
               'crash points are call events of Python code, not arbitrary machine instructions']
EXHAUSTIVE = {'quick': True, 'thorough': True}
LEVEL_TEXT = ('every (stage x worker x failure mode x crash point) combination on the small inputs is executed against the real code with a real process death; '
              'the claim is exhaustive over that finite grid (reported in the evidence), not over all crash instants')

STAGES = ['mapping', 'stats', 'refm', 'qmark', 'pmask', 'pm2m', 'transpose']
MODES = ['kill', 'exit', 'raise', 'term']
POINTS = ['before', 'mid', 'after']
MAX_WORKERS = 6
DESTS = ['all', 'csv_only', 'obsm_only', 'json_only', 'hdf5_csv']

TREES = [
    {'hierarchy': ['class', 'subclass', 'cluster'],
     'class': {'A': ['a1', 'a2'], 'B': ['b1']},
     'subclass': {'a1': ['x1', 'x2'], 'a2': ['x3', 'x6'], 'b1': ['x4', 'x5']},
     'cluster': {k: [] for k in ['x1', 'x2', 'x3', 'x4', 'x5', 'x6']}},
    {'hierarchy': ['subclass', 'cluster'],
     'subclass': {'s1': ['k1', 'k2', 'k3'], 's2': ['k4'], 's3': ['k5', 'k6', 'k7']},
     'cluster': {k: [] for k in ['k1', 'k2', 'k3', 'k4', 'k5', 'k6', 'k7']}},
    {'hierarchy': ['cluster'],
     'cluster': {k: [] for k in ['m1', 'm2', 'm3', 'm4', 'm5']}},
]


def budget(tier):
    return 0


def enumerate_specs(tier):
    inputs = [0] if tier == 'quick' else [0, 1, 2]
    grid = [0.5] if tier == 'quick' else [0.1, 0.3, 0.5, 0.7, 0.9]
    out = []
    for i in inputs:
        for s in STAGES:
            for w in range(MAX_WORKERS):
                for m in MODES:
                    for p in POINTS:
                        for q in (grid if p == 'mid' else [None]):
                            out.append({'input': i, 'stage': s, 'worker': w, 'mode': m, 'point': p, 'q': q})
    # the mapping stage with other destination sets (no JSON/HDF5 destination: CSV only, query.obsm only ...)
    for i in inputs:
        for dest in DESTS[1:]:
            for w in range(3):
                for m in MODES:
                    for q in grid:
                        out.append({'input': i, 'stage': 'mapping', 'worker': w, 'mode': m, 'point': 'mid', 'q': q, 'dest': dest})
    # interleave so that every shard sees every stage
    return out


# ------------------------------------------------------------------ fixture (cached per process)
_FIX = {}


def fixture(i):
    if i in _FIX:
        return _FIX[i]
    base = pathlib.Path(tempfile.mkdtemp(prefix=f'c14fix{i}_', dir=scratch_root()))
    from pbt.core import remove_at_exit
    remove_at_exit(base)
    rs = {'tree': TREES[i], 'n_genes': 24, 'cells_per': 12, 'seed': 5 + i, 'dtype': 'float32', 'enc': 'csr', 'shuffle': True}
    pipeline.write_ref_h5ad(base / 'ref.h5ad', rs)
    h = TREES[i]['hierarchy']
    tmp = base / 'tmp'
    tmp.mkdir()
    pipeline.run_stats(base / 'ref.h5ad', h, base / 'stats.h5', tmp, n_processors=2, rows_at_a_time=25)
    pipeline.run_refmarkers(base / 'stats.h5', base / 'refm.h5', tmp, n_processors=2)
    n_leaves = len(TREES[i][h[-1]])
    n_pairs = n_leaves * (n_leaves - 1) // 2
    n_per = 8
    while n_pairs % n_per == 1:
        n_per += 1
    pipeline.run_pmask(base / 'stats.h5', base / 'pmask.h5', tmp, n_processors=2, n_per=n_per)
    genes = [f'g{k}' for k in range(24) if k % 5]
    lk = pipeline.run_query_markers(base / 'refm.h5', genes, base / 'stats.h5', tmp, n_processors=2)
    (base / 'markers.json').write_text(json.dumps(lk))
    X, rows, g, cells, prof = pipeline.expand_ref_dataset(rs)
    materialize.write_h5ad(base / 'query.h5ad', X[:9], [f'q{k}' for k in range(9)], g, enc='csr')
    with h5py.File(base / 'refm.h5', 'r') as f:
        n_genes_ref = len(json.loads(f['gene_names'][()].decode()))
    fx = {'base': base, 'h': h, 'genes': genes, 'n_per': n_per, 'n_genes_ref': n_genes_ref}
    _FIX[i] = fx
    return fx


def stage_call(fx, stage, d, dest='all'):
    """returns (callable running the stage with outputs under d, output path or None)"""
    b = fx['base']
    d = pathlib.Path(d)
    tmp = d / 'tmp'
    tmp.mkdir(exist_ok=True)
    out = d / 'out.h5'
    if stage == 'stats':
        return (lambda: pipeline.run_stats(b / 'ref.h5ad', fx['h'], out, tmp, n_processors=3, rows_at_a_time=25)), out
    if stage == 'refm':
        return (lambda: pipeline.run_refmarkers(b / 'stats.h5', out, tmp, n_processors=3)), out
    if stage == 'qmark':
        return (lambda: pipeline.run_query_markers(b / 'refm.h5', fx['genes'], b / 'stats.h5', tmp, n_processors=3)), None
    if stage == 'pmask':
        return (lambda: pipeline.run_pmask(b / 'stats.h5', out, tmp, n_processors=2, n_per=fx['n_per'])), out
    if stage == 'pm2m':
        return (lambda: pipeline.run_pmask_markers(b / 'stats.h5', b / 'pmask.h5', out, tmp, n_processors=2)), out
    if stage == 'transpose':
        return (lambda: pipeline.run_transpose(b / 'refm.h5', 'sparse_by_pair/up_gene_idx', 'sparse_by_pair/up_pair_idx', None,
                                               fx['n_genes_ref'], out, tmp, n_processors=3)), out
    if stage == 'mapping':
        cfg = {'chunk_size': 3, 'n_processors': 3, 'bootstrap_iteration': 4, 'bootstrap_factor': 0.9, 'n_runners_up': 2,
               'min_markers': 2, 'normalization': 'raw', 'rng_seed': 11, 'tmp_dir': True, 'cloud_safe': False}
        paths = {'stats': b / 'stats.h5', 'query': b / 'query.h5ad', 'markers': b / 'markers.json'}
        holder = {}
        kw = {'all': {}, 'csv_only': {'json_out': False, 'hdf5': False}, 'obsm_only': {'json_out': False, 'hdf5': False, 'csv': False},
              'json_only': {'hdf5': False, 'csv': False}, 'hdf5_csv': {'json_out': False}}[dest]
        if dest == 'obsm_only':
            shutil.copy(b / 'query.h5ad', d / 'query.h5ad')
            paths['query'] = d / 'query.h5ad'
            cfg['obsm_key'] = 'cdm_mapping'

        def run():
            o = mapping.run(d, paths, cfg, **kw)
            holder['o'] = o
            if o.error is not None:
                raise o.error
        return run, d / 'out.json'
    raise ValueError(stage)


def consumer_accepts(fx, stage, out, d):
    """would the next stage accept the file left at the output location?"""
    b = fx['base']
    tmp = pathlib.Path(d) / 'tmp'
    try:
        if stage == 'stats':
            # the next stage's library entry point takes the taxonomy as an argument: hand it the taxonomy
            # of the intact statistics file, so that a structurally complete but partial file is not
            # "rejected" merely because the tree is appended last
            from cell_type_mapper.diff_exp.markers import find_markers_for_all_taxonomy_pairs
            with quiet():
                find_markers_for_all_taxonomy_pairs(
                    precomputed_stats_path=out, taxonomy_tree=pipeline.tree_of_stats(b / 'stats.h5'),
                    output_path=pathlib.Path(d) / 'consumer.h5', n_processors=1, tmp_dir=str(tmp), max_gb=1, n_valid=5)
        elif stage in ('refm', 'pm2m'):
            from cell_type_mapper.marker_selection.marker_array import MarkerGeneArray
            with quiet():
                MarkerGeneArray.from_cache_path(out)
        elif stage == 'pmask':
            pipeline.run_pmask_markers(b / 'stats.h5', out, pathlib.Path(d) / 'consumer.h5', tmp, n_processors=1)
        elif stage == 'transpose':
            with h5py.File(out, 'r') as f:
                f['indptr'][()]
                f['indices'][()]
        return True
    except Exception:
        return False


# ------------------------------------------------------------------ isolated execution
def run_isolated(fn, timeout):
    """run fn() in a forked child (own session); returns its JSON result or raises Inconclusive on timeout"""
    fd, res = tempfile.mkstemp(prefix='c14res_', dir=scratch_root())
    os.close(fd)
    pid = os.fork()
    if pid == 0:
        try:
            os.setsid()
            r = fn()
            with open(res, 'w') as f:
                json.dump(r, f)
        except BaseException:
            with open(res, 'w') as f:
                json.dump({'harness_error': traceback.format_exc()}, f)
        finally:
            os._exit(0)
    t0 = time.time()
    while True:
        p, _ = os.waitpid(pid, os.WNOHANG)
        if p != 0:
            break
        if time.time() - t0 > timeout:
            try:
                os.killpg(pid, signal.SIGKILL)
            except Exception:
                pass
            os.waitpid(pid, 0)
            os.unlink(res)
            raise Inconclusive('case timeout')
        time.sleep(0.02)
    try:
        r = json.load(open(res))
    except Exception:
        raise Inconclusive('isolated case left no readable result')
    finally:
        os.unlink(res)
    if 'harness_error' in r:
        raise RuntimeError(r['harness_error'])
    return r


_DRY = {}


def dry_run(i, stage, all_files=False):
    key = (i, stage, all_files)
    if key in _DRY:
        return _DRY[key]
    fx = fixture(i)

    def body():
        d = pathlib.Path(tempfile.mkdtemp(prefix='c14dry_', dir=scratch_root()))
        md = d / 'markers'
        md.mkdir()
        try:
            fn, out = stage_call(fx, stage, d)
            with inject.controlled(plan={}, marker_dir=md, count_events=True, all_files=all_files):
                fn()
                n = inject.n_dispatched()
            m = inject.read_markers(md)
            return {'n_workers': n, 'counts': {str(k): v for k, v in m['counts'].items()}}
        finally:
            shutil.rmtree(d, ignore_errors=True)
    r = run_isolated(body, 300)
    _DRY[key] = r
    return r


def check(spec):
    i, stage, w = spec['input'], spec['stage'], spec['worker']
    fx = fixture(i)
    dry = dry_run(i, stage)
    if w >= dry['n_workers']:
        return Case(False, ['no_such_worker'])
    plan = {'fault': spec['mode'], 'point': spec['point']}
    all_files = False
    if spec['point'] == 'mid':
        n = dry['counts'].get(str(w), 0)
        if n < 3:
            all_files = True
            dry = dry_run(i, stage, all_files=True)
            n = dry['counts'].get(str(w), 0)
        if n < 1:
            return Case(False, ['no_events_in_worker'])
        plan['at'] = max(1, min(n, int(round(spec['q'] * n))))

    def body():
        d = pathlib.Path(tempfile.mkdtemp(prefix='c14run_', dir=scratch_root()))
        md = d / 'markers'
        md.mkdir()
        try:
            fn, out = stage_call(fx, stage, d, spec.get('dest', 'all'))
            raised = None
            with inject.controlled(plan={w: plan}, marker_dir=md, all_files=all_files):
                try:
                    fn()
                except Exception as e:
                    raised = f'{type(e).__name__}: {str(e)[:200]}'
            m = inject.read_markers(md)
            r = {'raised': raised, 'delivered': w in m['faults'], 'out_exists': bool(out is not None and out.exists())}
            if stage == 'mapping':
                j = d / 'out.json'
                r['json_exists'] = j.exists()
                if j.exists():
                    blob = json.load(open(j))
                    r['json_has_results'] = 'results' in blob
                    r['json_has_log'] = isinstance(blob.get('log'), list) and len(blob['log']) > 0
                    r['success_line_in_json_log'] = any('RAN SUCCESSFULLY' in s for s in blob.get('log', []))
                h5 = d / 'out.h5'
                r['h5_exists'] = h5.exists()
                if h5.exists():
                    with h5py.File(h5, 'r') as f:
                        r['h5_has_results'] = 'assignment' in f.keys() or 'cell_id' in f.keys()
                r['csv_exists'] = (d / 'out.csv').exists()
                if (d / 'query.h5ad').exists():
                    with h5py.File(d / 'query.h5ad', 'r') as f:
                        r['obsm_written'] = 'obsm' in f and 'cdm_mapping' in f['obsm']
                lf = d / 'out.log'
                r['log_file_exists'] = lf.exists()
                r['success_line_in_log_file'] = lf.exists() and 'RAN SUCCESSFULLY' in lf.read_text()
            elif r['out_exists'] and raised is not None:
                r['consumer_accepts'] = consumer_accepts(fx, stage, out, d)
            return r
        finally:
            shutil.rmtree(d, ignore_errors=True)
    r = run_isolated(body, 120)
    ctx = dict(spec)
    if not r['delivered']:
        return Case(False, ['fault_not_delivered'])
    if r['raised'] is None:
        raise Violation('failed_worker_not_reported', ctx)
    if stage == 'mapping':
        for k in ('json_has_results', 'h5_has_results', 'csv_exists', 'obsm_written', 'success_line_in_json_log', 'success_line_in_log_file'):
            if r.get(k):
                raise Violation('partial_result_after_failure', dict(ctx, what=k))
        has_json = spec.get('dest', 'all') in ('all', 'json_only')
        if not r.get('log_file_exists') or (has_json and not r.get('json_has_log')):
            raise Violation('log_not_written_after_failure', dict(ctx, observed=r))
    elif r.get('consumer_accepts'):
        raise Violation('output_of_failed_stage_accepted_downstream', ctx)
    classes = ['stage_' + stage, 'mode_' + spec['mode'], 'point_' + spec['point']]
    if stage == 'mapping':
        classes.append('mapping_dest_' + spec.get('dest', 'all'))
    if r['out_exists'] and stage != 'mapping':
        classes.append('output_file_left_but_rejected')
    return Case(True, classes, key=json.dumps(spec, sort_keys=True))


def sample_view(spec):
    return spec
