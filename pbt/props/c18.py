"""C18 - the stages compose: cluster centroids map back to themselves."""
import json

import hypothesis.strategies as st
import numpy as np

from pbt import mapping, materialize, pipeline, treemodel
from pbt.core import Case, Violation, sandbox, quiet
from pbt.props.c02 import parse_trace

ID = 'C18'
LEVEL = 'exploration'
TECHNIQUE = 'property-based testing (Hypothesis) of the composed pipeline: generated separable reference data -> the library\'s own statistics, reference-marker and query-marker stages -> run_mapping of one centroid per leaf; oracle = identity mapping with probability 1 / correlation 1, under the stated precondition evaluated on the traced bootstrap subsets'
RULE = ('cases = generated reference datasets with separable clusters (taxonomies of 1-3 levels, 2-7 leaves, 16-30 genes, any encoding/dtype) x query gene subset and order x bootstrap factor / iterations / seed x worker counts of every stage; '
        'non-trivial = at least one (centroid, node with >=2 children) visit satisfied the precondition on every drawn subset and was checked; distinct = distinct spec hash')
RULE += '; additions: node names with odd characters, references of 257-300 clusters (about 1 case in 20), named obs / var indexes'
ASSUMPTIONS = ['the centroid is computed by the harness from the raw cells (float64); correlation tolerance 1e-9 (1e-5 when the reference file is float32)',
               'node visits where another leaf is perfectly correlated on a drawn subset, or the centroid is constant on it, are skipped and counted (the precondition of the statement)']


def budget(tier):
    return {'quick': 160, 'thorough': 1600}[tier]


@st.composite
def strategy_(draw):
    if draw(st.integers(0, 19)) == 7:
        # a reference with more clusters than a one-byte index addresses (257-300), few cells each, more genes
        rs = draw(pipeline.ref_dataset_specs(max_levels=2, max_leaves=300, min_leaves=257, n_genes=draw(st.sampled_from([64, 80])),
                                             cells_per=draw(st.integers(3, 4))))
    else:
        rs = draw(pipeline.ref_dataset_specs(max_levels=3, max_leaves=7, min_leaves=2, allow_odd=True))
    ng = rs['n_genes']
    drop = draw(st.lists(st.integers(0, ng - 1), max_size=max(0, ng // 5), unique=True))
    qgenes = [f'g{i}' for i in range(ng) if i not in drop] + ['novel_a', 'novel_b'][:draw(st.integers(0, 2))]
    from pbt import gen as _gen
    qgenes = list(draw(_gen.shuffled(qgenes)))
    return {
        'ref': rs,
        'query_genes': qgenes,
        'stats': {'n_processors': draw(st.integers(1, 3)), 'rows_at_a_time': draw(st.integers(3, 40))},
        'refm': {'n_processors': draw(st.integers(1, 3)), 'n_valid': draw(st.integers(3, 10))},
        'qmark': {'n_processors': draw(st.integers(1, 3)), 'n_per_utility': draw(st.integers(1, 4))},
        'cfg': {'flatten': False, 'drop_level': None,
                'chunk_size': draw(st.integers(1, 8)), 'n_processors': draw(st.integers(1, 3)),
                'n_runners_up': draw(st.integers(0, 3)),
                'bootstrap_iteration': draw(st.sampled_from([1, 3, 7, 12])),
                'bootstrap_factor': draw(st.sampled_from([1.0, 0.9, 0.7, 0.5, 0.3])),
                'min_markers': draw(st.integers(1, 4)), 'normalization': 'log2CPM',
                'rng_seed': draw(st.integers(0, 2**31 - 1)), 'tmp_dir': True, 'max_gb': 1.0, 'cloud_safe': True},
        'query_enc': draw(st.sampled_from(['csr', 'csc', 'dense'])),
        'truncate': draw(st.integers(0, 3)) == 0,
    }


def strategy(tier):
    return strategy_()


def sample_view(spec):
    v = dict(spec)
    v['ref'] = dict(spec['ref'])
    v['query_genes'] = len(spec['query_genes'])
    return v


def corr(a, b):
    a = a - a.mean()
    b = b - b.mean()
    na, nb = np.sqrt((a * a).sum()), np.sqrt((b * b).sum())
    if na == 0 or nb == 0:
        return None
    return float((a * b).sum() / (na * nb))


def check(spec):
    rs = spec['ref']
    t_full = treemodel.Tree(rs['tree'])
    full_h = list(t_full.h)
    truncate = bool(spec.get('truncate')) and len(full_h) >= 2 and len(rs['tree'][full_h[-2]]) >= 2     # (>=2 leaves remain)
    if truncate:
        # the statistics are collapsed to the hierarchy without its last level (the library's own truncation stage);
        # the nodes of the level above become the leaves, their centroids the queries
        tr = {'hierarchy': full_h[:-1]}
        for lv in full_h[:-2]:
            tr[lv] = {k: list(v) for k, v in rs['tree'][lv].items()}
        tr[full_h[-2]] = {k: [] for k in rs['tree'][full_h[-2]]}
        t = treemodel.Tree(tr)
    else:
        t = t_full
    h = t.h
    X, rows, genes, cells, _ = pipeline.expand_ref_dataset(rs)
    xl = X.astype(np.longdouble)
    rsum = xl.sum(axis=1)
    rsum = np.where(rsum > 0, rsum, 1)
    l2 = np.log2(1 + 1e6 * xl / rsum[:, None])
    leaves = sorted(t.leaves())
    cent = {}
    for lf in leaves:
        idx = [i for i, r in enumerate(rows) if r[h[-1]] == lf]
        cent[lf] = l2[idx].mean(axis=0)
    gcol = {g: i for i, g in enumerate(genes)}
    tol = 1e-5 if rs['dtype'] == 'float32' else 1e-9
    with sandbox() as d:
        tmp = d / 'tmp'
        tmp.mkdir()
        pipeline.write_ref_h5ad(d / 'ref.h5ad', rs)
        stage = 'statistics'
        try:
            if truncate:
                from cell_type_mapper.diff_exp.truncate_precompute import truncate_precomputed_stats_file
                pipeline.run_stats(d / 'ref.h5ad', full_h, d / 'stats_full.h5', tmp, **spec['stats'])
                stage = 'truncation of the statistics'
                with quiet():
                    truncate_precomputed_stats_file(input_path=d / 'stats_full.h5', output_path=d / 'stats.h5', new_hierarchy=list(h))
            else:
                pipeline.run_stats(d / 'ref.h5ad', h, d / 'stats.h5', tmp, **spec['stats'])
            stage = 'reference markers'
            pipeline.run_refmarkers(d / 'stats.h5', d / 'refm.h5', tmp, **spec['refm'])
            stage = 'query marker selection'
            lk = pipeline.run_query_markers(d / 'refm.h5', spec['query_genes'], d / 'stats.h5', tmp, **spec['qmark'])
        except Exception as e:
            raise Violation('stage_rejected_its_predecessors_output', {'stage': stage, 'error': f'{type(e).__name__}: {str(e)[:300]}'})
        if list(tmp.iterdir()):
            pass  # scratch hygiene is C19's business
        (d / 'markers.json').write_text(json.dumps(lk))
        # genes are identified consistently by name across the stages: a gene selected for a parent must,
        # by its NAME, be differentially expressed (on or above the fold-change floor the marker stage used)
        # between at least one leaf pair the parent has to discriminate, judged on the raw cells
        n_sel = 0
        for key, sel in lk.items():
            parent = None if key == 'None' else tuple(key.split('/', 1))
            pairs = t.pairs_to_compare(parent)
            for g in sel:
                n_sel += 1
                if g not in gcol or g not in spec['query_genes']:
                    raise Violation('selected_gene_unknown', {'parent': key, 'gene': g})
                best = max(abs(float(cent[a][gcol[g]] - cent[b][gcol[g]])) for a, b in (tuple(pp) for pp in pairs))
                if best < 0.8 - 1e-3:
                    raise Violation('selected_marker_not_differential_by_name', {'parent': key, 'gene': g, 'largest_log2_fold_among_pairs': best})
        # centroid query: one cell per leaf, named after the leaf, genes in the drawn order
        qg = spec['query_genes']
        qx = np.zeros((len(leaves), len(qg)), dtype=np.float64)
        for i, lf in enumerate(leaves):
            for j, g in enumerate(qg):
                if g in gcol:
                    qx[i, j] = float(cent[lf][gcol[g]])
                else:
                    qx[i, j] = 3.0 + i
        materialize.write_h5ad(d / 'query.h5ad', qx, [f'centroid_of_{lf}' for lf in leaves], qg, enc=spec['query_enc'])
        paths = {'stats': d / 'stats.h5', 'query': d / 'query.h5ad', 'markers': d / 'markers.json'}
        root_genes = set(lk.get('None', [])) & set(qg)
        o = mapping.run(d, paths, spec['cfg'], trace=True)
    if not o.ok:
        if len(t.children(None)) >= 2 and not root_genes:
            return Case(False, ['no_root_marker_selected'])
        if not any(set(v) & set(qg) for k, v in lk.items() if k != 'log'):
            # the marker stages found nothing to select for any parent (clusters not separable by the thresholds):
            # there is nothing to map with, and the mapper says so
            return Case(False, ['no_marker_selected_anywhere'])
        raise Violation('mapping_rejected_pipeline_files', {'error': f'{type(o.error).__name__}: {str(o.error)[:300]}'})
    cell2chunk, visits = parse_trace(o.trace)
    res = {r['cell_id']: r for r in o.out['results']}
    checked = skipped = 0
    for lf in leaves:
        cid = f'centroid_of_{lf}'
        r = res[cid]
        path = t.path_of_leaf(lf)
        parent = None
        for lv in h:
            kids = t.children(parent)
            want = path[lv]
            rec = r[lv]
            if len(kids) >= 2:
                pj = json.dumps(list(parent) if parent is not None else None)
                v = visits.get((cell2chunk.get(cid), pj))
                if v is None:
                    raise Violation('trace_missing_visit', {'cell': cid, 'parent': parent})
                g_used = v['genes']
                cl = t.child_level(parent)
                under = [x for k in kids for x in t.leaves_under(cl, k)]
                ok = len(g_used) > 0
                for S in v['subsets']:
                    gs = [g_used[s] for s in S]
                    me = np.array([cent[lf][gcol[g]] for g in gs])
                    if np.ptp(me) == 0:
                        ok = False
                        break
                    for other in under:
                        if other == lf:
                            continue
                        c = corr(me, np.array([cent[other][gcol[g]] for g in gs]))
                        if c is None or c >= 1 - 10 * tol:
                            ok = False
                            break
                    if not ok:
                        break
                if not ok:
                    skipped += 1
                    break   # below an undecidable node the path is not determined
                checked += 1
                ctx = {'centroid': lf, 'level': lv, 'parent': parent, 'factor': spec['cfg']['bootstrap_factor']}
                if rec['assignment'] != want:
                    raise Violation('centroid_not_mapped_to_itself', dict(ctx, got=rec['assignment'], want=want,
                                                                          p=rec['bootstrapping_probability'], corr=rec['avg_correlation']))
                if rec['bootstrapping_probability'] != 1.0:
                    raise Violation('centroid_probability_not_one', dict(ctx, p=rec['bootstrapping_probability']))
                if abs(rec['avg_correlation'] - 1.0) > tol:
                    raise Violation('centroid_correlation_not_one', dict(ctx, corr=rec['avg_correlation'], tol=tol))
            else:
                if rec['assignment'] != want:
                    raise Violation('single_child_not_followed', {'centroid': lf, 'level': lv})
            parent = (lv, want)
    classes = [f'levels_{len(h)}', 'factor_1' if spec['cfg']['bootstrap_factor'] == 1.0 else 'factor_lt_1', 'ref_' + rs['dtype'], 'ref_' + rs['enc']]
    if len(t.leaves()) > 256:
        classes.append('more_than_256_clusters')
    if truncate:
        classes.append('statistics_truncated_to_coarser_hierarchy')
    if skipped:
        classes.append('precondition_skips')
    return Case(checked > 0, classes, info={'node_visits_checked': checked, 'node_visits_skipped': skipped})
