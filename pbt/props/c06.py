"""C06 - a cell's mapping depends only on its own expression vector."""
import copy

import hypothesis.strategies as st
import numpy as np

from pbt import gen, mapping, materialize
from pbt.core import Case, Violation, sandbox
from pbt.props import common, metam

ID = 'C06'
LEVEL = 'exploration'
TECHNIQUE = 'property-based testing (Hypothesis), metamorphic: two run_mapping runs at bootstrap factor 1 on a query and on its row-permuted / sub-set / super-set / duplicated / re-chunked variant, joined on cell id'
RULE = ('cases = generated mapping inputs at bootstrap factor 1 x transformation in {permute rows, subset, superset with extra cells, duplicate rows under new ids, other chunk size / worker count}; '
        'non-trivial = at least one compared cell changes row index or chunk between the two runs; cells the reference model flags as near-ties (margin < 1e-7) are skipped and counted; distinct = distinct spec hash')
ASSUMPTIONS = ['correlations are compared at 1e-9 (5e-5 for float32 input); everything else exactly']


def budget(tier):
    return {'quick': 480, 'thorough': 6000}[tier]


@st.composite
def strategy_(draw):
    spec = copy.deepcopy(draw(gen.map_cases(factor=1.0, max_cells=10)))
    n = len(spec['query']['cells'])
    if draw(st.booleans()):
        # cells without any stored value, anywhere in the file (a sparse row of length zero)
        spec['query']['zero_rows'] = draw(st.lists(st.integers(0, n - 1), min_size=1, max_size=3, unique=True))
        if draw(st.integers(0, 3)) > 0:
            spec['query']['enc'] = draw(st.sampled_from(['csr', 'csc']))
    rel = draw(st.sampled_from(['permute', 'subset', 'superset', 'duplicate', 'rechunk']))
    if draw(st.integers(0, 2)) == 0:
        # input declared as already normalised, cells of very different overall magnitude
        spec['cfg']['normalization'] = 'log2CPM'
        spec['query']['kind'] = 'float'
        spec['query']['dtype'] = draw(st.sampled_from(['float32', 'float64']))
        spec['query']['row_scale'] = draw(st.lists(st.sampled_from([1.0, 1.0, 1e-9, 1e-5, 1e4, 0.37]), min_size=n, max_size=n))
    t = {'rel': rel}
    if rel == 'permute':
        t['perm'] = list(draw(st.permutations(list(range(n)))))
    elif rel == 'subset':
        keep = draw(st.lists(st.integers(0, n - 1), min_size=1, max_size=n, unique=True))
        t['keep'] = keep
    elif rel == 'superset':
        t['n_extra'] = draw(st.integers(1, 5))
        t['seed'] = draw(st.integers(0, 2**31 - 1))
        t['front'] = draw(st.booleans())
    elif rel == 'duplicate':
        t['dup'] = draw(st.lists(st.integers(0, n - 1), min_size=1, max_size=4))
        t['front'] = draw(st.booleans())
    t['chunk_size'] = draw(st.integers(1, n + 6))
    t['n_processors'] = draw(st.integers(1, 4))
    spec['transform'] = t
    return spec


def strategy(tier):
    return strategy_()


KNOWN_TRIGGERS = {}


def sample_view(spec):
    v = common.map_sample_view(spec)
    v['transform'] = spec['transform']
    return v


def transformed_query(spec):
    q = spec['query']
    t = spec['transform']
    x = materialize.expand_query(q)
    cells = [str(c) for c in q['cells']]
    rel = t['rel']
    if rel == 'permute':
        idx = t['perm']
        x2, c2 = x[idx], [cells[i] for i in idx]
    elif rel == 'subset':
        idx = t['keep']
        x2, c2 = x[idx], [cells[i] for i in idx]
    elif rel == 'superset':
        rng = np.random.default_rng(t['seed'])
        extra = rng.integers(0, q.get('max_count', 60) + 1, (t['n_extra'], x.shape[1])).astype(x.dtype)
        ec = [f'extra_{i}' for i in range(t['n_extra'])]
        if t['front']:
            x2, c2 = np.vstack([extra, x]), ec + cells
        else:
            x2, c2 = np.vstack([x, extra]), cells + ec
    elif rel == 'duplicate':
        dx = x[t['dup']]
        dc = [f'dup{j}_of_{cells[i]}' for j, i in enumerate(t['dup'])]
        if t['front']:
            x2, c2 = np.vstack([dx, x]), dc + cells
        else:
            x2, c2 = np.vstack([x, dx]), cells + dc
    else:
        x2, c2 = x, cells
    q2 = dict(q)
    q2['cells'] = c2
    q2['x'] = x2.tolist()
    return q2


def check(spec):
    t = spec['transform']
    spec_b = copy.deepcopy(spec)
    spec_b['query'] = transformed_query(spec)
    cfg_b = dict(spec['cfg'], chunk_size=t['chunk_size'], n_processors=t['n_processors'])
    if t['rel'] != 'rechunk' and not t.get('also_rechunk', True):
        cfg_b = dict(spec['cfg'])
    spec_b['cfg'] = cfg_b
    with sandbox() as d:
        da, db = d / 'a', d / 'b'
        da.mkdir()
        db.mkdir()
        pa = materialize.write_map_case(da, spec)
        pb = materialize.write_map_case(db, spec_b)
        oa = mapping.run(da, pa, spec['cfg'])
        ob = mapping.run(db, pb, cfg_b)
    if not oa.ok or not ob.ok:
        raise Violation('run_raised', {'first': repr(oa.error)[:300], 'second': repr(ob.error)[:300]})
    h = spec['tree']['hierarchy']
    A, B = metam.by_id(oa.out['results']), metam.by_id(ob.out['results'])
    skip = metam.near_tie_cells(spec, oa.out)
    tol = 5e-5 if spec['query']['dtype'] == 'float32' else 1e-9
    compared = 0
    for cid in A:
        if cid not in B:
            continue
        if cid in skip:
            continue
        metam.compare_records(A[cid], B[cid], h, tol=tol, ctx={'rel': t['rel']})
        compared += 1
    if t['rel'] == 'duplicate':
        cells = [str(c) for c in spec['query']['cells']]
        for j, i in enumerate(t['dup']):
            src = cells[i]
            if src in skip:
                continue
            dup = B[f'dup{j}_of_{src}']
            rec = dict(dup, cell_id=src)
            metam.compare_records(B[src], rec, h, tol=tol, ctx={'rel': 'duplicate_within_run'})
    if t['rel'] == 'subset' and set(B) != {str(spec['query']['cells'][i]) for i in t['keep']}:
        raise Violation('subset_ids', {})
    ca, cb = [str(c) for c in spec['query']['cells']], spec_b['query']['cells']
    moved = any(ca.index(c) != cb.index(c) for c in ca if c in cb) or \
        (cfg_b['chunk_size'], cfg_b['n_processors']) != (spec['cfg']['chunk_size'], spec['cfg']['n_processors'])
    classes = ['rel_' + t['rel']]
    if spec['query'].get('zero_rows') and spec['query']['enc'] != 'dense':
        classes.append('sparse_query_with_empty_row')
    if spec['cfg'].get('normalization') == 'log2CPM':
        classes.append('declared_normalised_mixed_magnitudes')
    if skip:
        classes.append('near_tie_cells_skipped')
    return Case(moved and compared > 0, classes, info={'cells_compared': compared, 'near_tie_skipped': len(skip)})
