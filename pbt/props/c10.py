"""C10 - the taxonomy stays a strict tree under construction and transformation.

Two families of cases
  kind='tree'   : a valid taxonomy dict (with leaf -> reference cells). The TaxonomyTree built from it, every
                  flatten / drop_level / to_str->from_str composition of it, and every one-edit malformed
                  variant of it are compared with the harness' own tree algebra (pbt.treemodel).
  kind='labels' : a per-cell label table. get_taxonomy_tree / TaxonomyTree.from_h5ad must reproduce exactly the
                  label combinations present, or reject the table when a child label sits under two parents.
The expected values never come from TaxonomyTree.
"""
import copy
import json
import os
import random
import subprocess
import sys
import warnings

import hypothesis.strategies as st

from pbt import gen, treemodel
from pbt.core import Case, Violation, sandbox

ID = 'C10'
LEVEL = 'exploration'
TECHNIQUE = ('bounded-exhaustive enumeration of tree shapes plus property-based testing (Hypothesis) of TaxonomyTree '
             'against an independent tree algebra; exhaustive one-edit malformed variants of every generated tree; '
             'thorough tier adds a coverage-guided (atheris) campaign over the same strategy and oracle')
RULE = ('cases = every uniform-depth shape with <=4 levels and <=6 leaves x 2 namings (kind=tree), per shape one label '
        'table and (>=2 levels) one label table with one cell re-labelled, and Hypothesis-drawn trees with <=5 levels / '
        '<=25 leaves and label tables (a third with one cell re-labelled); for a tree case the tree, its flatten, every '
        'sequence of drop_level calls (all orders; <=2 deep beyond 4 levels), flatten after each, and the JSON round trip '
        'of each are compared with the model, and every one-edit malformed variant must be rejected (thinned to 1500 per '
        'random tree); non-trivial = (tree case with >=2 levels and >=2 leaves) or (label table with >=2 levels that is '
        'a tree with >=2 leaves, or is not a tree); distinct = distinct spec hash')
RULE += '; label schemes include labels padded with blanks and level names that are prefixes of each other'
ASSUMPTIONS = ['every non-leaf node has >=1 child and child lists are duplicate-free (documented input domain); '
               'a duplicate of a child inside the same list and a childless top-level node are not generated',
               'order of children / nodes / pairs in returned lists is not compared; inside one pair the two leaves are '
               'required in alphabetical order (code comment in get_all_leaf_pairs; idx_of_pair depends on it)',
               'the cells of each leaf are expected to survive flatten/drop/serialisation (to_str(drop_cells=True) '
               'is expected to empty them)',
               'labels in a label table are compared after str() (get_taxonomy_tree converts them)']
EXHAUSTIVE = {'quick': True, 'thorough': True}

MAX_VARIANTS = {'enum': None, 'random': 1500}


def budget(tier):
    return {'quick': 1280, 'thorough': 40000}[tier]


# ---------------------------------------------------------------------------------------------------- generators
def _fill_rows(tree, scheme, k):
    """deterministic leaf -> cells for the enumerated shapes: leaf j gets 1 + (j+k)%3 cells (0 cells for
    scheme 'empty'); ids are interleaved so that no leaf owns a contiguous block"""
    h = tree['hierarchy']
    leaves = list(tree[h[-1]].keys())
    n = len(leaves)
    for j, lf in enumerate(leaves):
        cnt = 0 if scheme == 'empty' else 1 + (j + k) % 3
        ids = [j + n * r for r in range(cnt)]
        if scheme == 'str':
            ids = [f'cell_{i}' for i in ids]
        tree[h[-1]][lf] = ids
    return tree


def _scramble(tree, k):
    """second naming of an enumerated shape: node names whose alphabetical order differs from the structural
    order (treemodel's own 'scrambled' scheme is monotonic below 14 nodes per level), key order of every level
    rotated and child lists reversed - all deterministic in k"""
    h = tree['hierarchy']
    ren = {}
    for lv in h:
        for j, n in enumerate(tree[lv]):
            ren[(lv, n)] = f'{n[:2]}{(j * 37 + 11 + k) % 97:02d}'
    out = {'hierarchy': list(h)}
    for li, lv in enumerate(h):
        items = list(tree[lv].items())
        r = (k + li) % len(items)
        items = items[r:] + items[:r]
        if li < len(h) - 1:
            out[lv] = {ren[(lv, n)]: [ren[(h[li + 1], c)] for c in reversed(cs)] for n, cs in items}
        else:
            out[lv] = {ren[(lv, n)]: list(cs) for n, cs in items}
    return out


def enumerate_specs(tier):
    shapes = treemodel.all_shapes(4, 6)
    out = []
    for i, sh in enumerate(shapes):
        for ni, naming in enumerate(('plain', 'scrambled')):
            tree = treemodel.shape_to_tree(sh, 'plain')
            if naming == 'scrambled':
                tree = _scramble(tree, i)
            _fill_rows(tree, 'int' if naming == 'plain' else 'str', i)
            if (i + ni) % 2 == 0:
                tree['metadata'] = {'note': 'enumerated', 'i': i}
            out.append({'kind': 'tree', 'origin': 'enum', 'naming': naming, 'tree': tree})
    for i, sh in enumerate(shapes):
        tree = treemodel.shape_to_tree(sh, 'plain')
        if i % 2 == 0:
            tree = _scramble(tree, i)
        out.append(_labels_from_shape(tree, i))
        if sh[0] > 1:
            out.append(_labels_from_shape(tree, i, edit=True))
    return out


def _labels_from_shape(tree, k, edit=False):
    t = treemodel.Tree(tree)
    r = random.Random(k)
    recs = []
    for j, lf in enumerate(t.leaves()):
        path = t.path_of_leaf(lf)
        for _ in range(1 + (j + k) % 3):
            recs.append([path[lv] for lv in t.h])
    r.shuffle(recs)
    if edit and len(t.h) > 1:
        # one cell's label at a non-leaf level is changed; if its child label is shared with another cell the
        # table stops being a tree (decided by the oracle from the records alone)
        li = k % (len(t.h) - 1)
        groups = {}
        for ri, rec in enumerate(recs):
            groups.setdefault(rec[li + 1], []).append(ri)
        multi = [v for v in groups.values() if len(v) > 1]
        ri = multi[k % len(multi)][0] if multi else 0
        others = sorted({rec[li] for rec in recs if rec[li] != recs[ri][li]})
        recs[ri][li] = others[k % len(others)] if others and k % 3 else 'zz_new'
    return {'kind': 'labels', 'origin': 'enum', 'hierarchy': list(t.h), 'records': recs,
            'extra_cols': bool(k % 2), 'h5ad': k % 8 == 0, 'edited': bool(edit and len(t.h) > 1)}


@st.composite
def tree_cases(draw, max_levels=5, max_leaves=25):
    tree = draw(gen.trees(max_levels=max_levels, max_leaves=max_leaves))
    h = tree['hierarchy']
    leaves = list(tree[h[-1]].keys())
    scheme = draw(st.sampled_from(['int', 'int', 'str', 'str', 'empty', 'some_empty']))
    if scheme != 'empty':
        lo = 0 if scheme == 'some_empty' else 1
        counts = draw(st.lists(st.integers(lo, 3), min_size=len(leaves), max_size=len(leaves)))
        ids = list(range(sum(counts)))
        ids = list(draw(st.permutations(ids))) if ids else []
        if scheme == 'str' or (scheme == 'some_empty' and draw(st.booleans())):
            ids = [f'c{i}' for i in ids]
        pos = 0
        for lf, c in zip(leaves, counts):
            tree[h[-1]][lf] = ids[pos:pos + c]
            pos += c
    if draw(st.integers(0, 2)) == 0:
        tree['metadata'] = {'note': 'm'}
    if draw(st.integers(0, 5)) == 0:
        # one node carries the empty string as its label (a blank annotation)
        li = draw(st.integers(0, len(h) - 1))
        old = draw(st.sampled_from(sorted(tree[h[li]].keys())))
        tree[h[li]] = {('' if k == old else k): v for k, v in tree[h[li]].items()}
        if li > 0:
            tree[h[li - 1]] = {k: [('' if c == old else c) for c in v] for k, v in tree[h[li - 1]].items()}
    return {'kind': 'tree', 'origin': 'random', 'tree': tree}


@st.composite
def label_cases(draw):
    tree = draw(gen.trees(max_levels=4, max_leaves=10, mappers=False))
    t = treemodel.Tree(tree)
    h = t.h
    label_mode = draw(st.sampled_from(['own', 'own', 'shared', 'int']))
    ren = {}
    for lv in h:
        for j, n in enumerate(tree[lv]):
            if label_mode == 'own':
                ren[(lv, n)] = n
            elif label_mode == 'shared':      # the same labels are reused on every level
                ren[(lv, n)] = f'L{j}'
            else:                             # integer labels (pandas would hand over numbers)
                ren[(lv, n)] = j
    if label_mode != 'int' and draw(st.integers(0, 5)) == 0:
        # one node carries the empty string as its label (a blank annotation column entry)
        lv0 = draw(st.sampled_from(list(h)))
        n0 = draw(st.sampled_from(sorted(tree[lv0].keys())))
        if label_mode == 'own':
            ren[(lv0, n0)] = ''
    leaves = t.leaves()
    counts = draw(st.lists(st.integers(0, 3), min_size=len(leaves), max_size=len(leaves)))
    if sum(counts) == 0:
        counts[draw(st.integers(0, len(leaves) - 1))] = 1
    recs = []
    for lf, c in zip(leaves, counts):
        path = t.path_of_leaf(lf)
        for _ in range(c):
            recs.append([ren[(lv, path[lv])] for lv in h])
    recs = [list(r) for r in draw(st.permutations(recs))]
    edited = False
    if len(h) > 1 and draw(st.integers(0, 2)) == 0:
        # move ONE cell's label at a non-leaf level to another label: a child shared by several cells then has
        # two parents (whether the table still is a tree is decided by the oracle, not here)
        li = draw(st.integers(0, len(h) - 2))
        by_child = {}
        for ri, r in enumerate(recs):
            by_child.setdefault(r[li + 1], []).append(ri)
        multi = [ri for v in by_child.values() if len(v) > 1 for ri in v]
        ri = draw(st.sampled_from(multi)) if multi and draw(st.integers(0, 3)) else draw(st.integers(0, len(recs) - 1))
        others = sorted({r[li] for r in recs if r[li] != recs[ri][li]}, key=str)
        new = 'zz_new' if label_mode != 'int' else 9999
        if others and draw(st.integers(0, 3)):
            new = draw(st.sampled_from(others))
        recs[ri][li] = new
        edited = True
    return {'kind': 'labels', 'origin': 'random', 'hierarchy': list(h), 'records': recs,
            'extra_cols': draw(st.booleans()), 'h5ad': draw(st.integers(0, 3)) == 0, 'edited': edited}


def strategy(tier):
    return st.one_of(tree_cases(), tree_cases(), tree_cases(max_levels=4, max_leaves=9), label_cases())


def sample_view(spec):
    if spec['kind'] == 'tree':
        t = spec['tree']
        return {'kind': 'tree', 'tree': {k: v for k, v in t.items() if k not in ('name_mapper', 'hierarchy_mapper')}}
    return {'kind': 'labels', 'hierarchy': spec['hierarchy'], 'records': spec['records'][:12],
            'n_records': len(spec['records']), 'h5ad': spec['h5ad'], 'edited': spec['edited']}


# ---------------------------------------------------------------------------------------------------- oracle
def _call(clause, ctx, fn, *a, **kw):
    """the operation is defined on every valid tree: an exception is a violation"""
    try:
        return fn(*a, **kw)
    except Exception as e:   # noqa
        raise Violation(clause, dict(ctx, error=f'{type(e).__name__}: {str(e)[:300]}'))


def _msorted(xs):
    return sorted(xs, key=lambda x: (type(x).__name__, x))


def _same_multiset(a, b):
    return _msorted(a) == _msorted(b)


def compare(tt, model_data, ctx, stats, serial=True):
    """every public structural query of the TaxonomyTree `tt` against the model of `model_data`"""
    from cell_type_mapper.taxonomy.taxonomy_tree import TaxonomyTree
    m = treemodel.Tree(model_data)
    h = m.h
    leaf_level = h[-1]
    stats['trees_compared'] += 1

    def bad(clause, **kw):
        raise Violation(clause, dict(ctx, **kw))

    got_h = _call('hierarchy_raised', ctx, lambda: tt.hierarchy)
    if list(got_h) != h:
        bad('hierarchy', got=got_h, want=h)
    if tt.leaf_level != leaf_level:
        bad('leaf_level', got=tt.leaf_level, want=leaf_level)
    # ---- node sets, leaf set, cells of each leaf
    for lv in h:
        got = _call('nodes_at_level_raised', ctx, tt.nodes_at_level, lv)
        if not _same_multiset(got, m.nodes(lv)):
            bad('leaf_set' if lv == leaf_level else 'node_set', level=lv, got=_msorted(got), want=sorted(m.nodes(lv)))
    got = _call('all_leaves_raised', ctx, lambda: tt.all_leaves)
    if not _same_multiset(got, m.leaves()) or tt.n_leaves != len(m.leaves()):
        bad('leaf_set', got=_msorted(got), want=sorted(m.leaves()))
    l2c = _call('leaf_to_cells_raised', ctx, lambda: tt.leaf_to_cells)
    if set(l2c.keys()) != set(m.leaves()):
        bad('leaf_set', got=sorted(l2c.keys()), want=sorted(m.leaves()), where='leaf_to_cells')
    for lf in m.leaves():
        if not _same_multiset(l2c[lf], model_data[leaf_level][lf]):
            bad('leaf_cells', leaf=lf, got=list(l2c[lf]), want=list(model_data[leaf_level][lf]))
    # ---- ancestors of every node (in particular: of every leaf at every remaining level)
    for li, lv in enumerate(h):
        for n in m.nodes(lv):
            want = {a[0]: a[1] for a in m.ancestors(lv, n)}
            got = _call('parents_raised', dict(ctx, level=lv, node=n), tt.parents, lv, n)
            if got != want:
                bad('leaf_ancestors' if lv == leaf_level else 'node_ancestors', level=lv, node=n, got=got, want=want)
            stats['ancestor_checks'] += 1
    # ---- children and parent/child inversion
    top = _call('children_raised', ctx, tt.children, None, None)
    if not _same_multiset(top, m.nodes(h[0])):
        bad('children', parent=None, got=_msorted(top), want=sorted(m.nodes(h[0])))
    for li, lv in enumerate(h[:-1]):
        cl = h[li + 1]
        for n in m.nodes(lv):
            got = _call('children_raised', dict(ctx, level=lv, node=n), tt.children, lv, n)
            if not _same_multiset(got, m.children((lv, n))):
                bad('children', parent=[lv, n], got=_msorted(got), want=sorted(m.children((lv, n))))
            for c in got:
                pc = tt.parents(cl, c)
                if pc.get(lv) != n:
                    bad('parent_child_inverse', parent=[lv, n], child=c, parents_of_child=pc)
    for li, lv in enumerate(h[1:], start=1):
        pl = h[li - 1]
        for n in m.nodes(lv):
            p = tt.parents(lv, n).get(pl)
            if p is None or n not in tt.children(pl, p):
                bad('parent_child_inverse', level=lv, node=n, reported_parent=p)
    # ---- as_leaves: per node the leaves below; the children's leaves partition the node's leaves
    al = _call('as_leaves_raised', ctx, lambda: tt.as_leaves)
    if set(al.keys()) != set(h):
        bad('as_leaves', got_levels=sorted(al.keys()), want=h)
    for li, lv in enumerate(h):
        if set(al[lv].keys()) != set(m.nodes(lv)):
            bad('as_leaves', level=lv, got_nodes=sorted(al[lv].keys()), want=sorted(m.nodes(lv)))
        for n in m.nodes(lv):
            if not _same_multiset(al[lv][n], m.leaves_under(lv, n)):
                bad('as_leaves', level=lv, node=n, got=_msorted(al[lv][n]), want=sorted(m.leaves_under(lv, n)))
            if lv != leaf_level:
                cl = h[li + 1]
                union = []
                for c in tt.children(lv, n):
                    union += list(al[cl][c])
                if len(set(union)) != len(union) or not _same_multiset(union, al[lv][n]):
                    bad('children_partition_leaves', level=lv, node=n, union=_msorted(union), node_leaves=_msorted(al[lv][n]))
                stats['partition_checks'] += 1
    union = []
    for n in top:
        union += list(al[h[0]][n])
    if len(set(union)) != len(union) or not _same_multiset(union, m.leaves()):
        bad('children_partition_leaves', node=None, union=_msorted(union))
    # ---- all_parents
    ap = _call('all_parents_raised', ctx, lambda: tt.all_parents)
    want_ap = m.all_parents()
    got_ap = [None if p is None else (p[0], p[1]) for p in ap]
    if len(got_ap) != len(want_ap) or set(got_ap) != set(want_ap):
        bad('all_parents', got=[list(p) if p else None for p in got_ap], want=[list(p) if p else None for p in want_ap])
    # ---- leaves_to_compare for every parent
    for parent in want_ap:
        pctx = dict(ctx, parent=list(parent) if parent else None)
        pairs = _call('leaves_to_compare_raised', pctx, tt.leaves_to_compare, parent)
        want = m.pairs_to_compare(parent)
        seen = set()
        for pr in pairs:
            if len(pr) != 3 or pr[0] != leaf_level:
                bad('pair_format', **dict(pctx, pair=list(pr)))
            fs = frozenset((pr[1], pr[2]))
            if len(fs) != 2 or fs not in want:
                bad('pair_not_cross_child', **dict(pctx, pair=list(pr)))
            if fs in seen:
                bad('pair_listed_twice', **dict(pctx, pair=list(pr)))
            seen.add(fs)
            if not pr[1] < pr[2]:
                bad('pair_alphabetised', **dict(pctx, pair=list(pr)))
        if seen != want:
            bad('pair_missing', **dict(pctx, missing=sorted(sorted(x) for x in want - seen)[:10]))
        stats['pair_checks'] += len(want)
        if want:
            stats['parents_with_pairs'] += 1
    # ---- serialisation
    if serial:
        s = _call('to_str_raised', ctx, tt.to_str)
        d = _call('serialised_not_json', ctx, json.loads, s)
        if not treemodel.is_valid_tree(d):
            bad('serialised_form_invalid', serialised=s[:600])
        _struct_equal(d, model_data, dict(ctx, where='json of to_str'), cells=True)
        tt2 = _call('from_str_raised', ctx, TaxonomyTree.from_str, s)
        compare(tt2, model_data, dict(ctx, after=ctx.get('after', []) + ['to_str->from_str']), stats, serial=False)
        s = _call('to_str_raised', ctx, tt.to_str, indent=2, drop_cells=True)
        tt3 = _call('from_str_raised', ctx, TaxonomyTree.from_str, s)
        nocell = dict(model_data)
        nocell[leaf_level] = {k: [] for k in model_data[leaf_level]}
        compare(tt3, nocell, dict(ctx, after=ctx.get('after', []) + ['to_str(drop_cells)->from_str']), stats, serial=False)
        stats['round_trips'] += 2


def _struct_equal(d, model_data, ctx, cells):
    """a plain dict in the documented format against the model"""
    h = model_data['hierarchy']
    if list(d.get('hierarchy', [])) != list(h):
        raise Violation('hierarchy', dict(ctx, got=d.get('hierarchy'), want=h))
    for li, lv in enumerate(h):
        if lv not in d or set(d[lv].keys()) != set(model_data[lv].keys()):
            raise Violation('leaf_set' if li == len(h) - 1 else 'node_set',
                            dict(ctx, level=lv, got=_msorted(d.get(lv, {}).keys()), want=sorted(model_data[lv].keys())))
        for n in model_data[lv]:
            if li == len(h) - 1 and not cells:
                continue
            if not _same_multiset(list(d[lv][n]), list(model_data[lv][n])):
                raise Violation('leaf_cells' if li == len(h) - 1 else 'children',
                                dict(ctx, level=lv, node=n, got=_msorted(d[lv][n]), want=_msorted(model_data[lv][n])))


def transformations(tt, model_data, ctx, stats, max_depth):
    """flatten, every sequence of drop_level calls (depth-limited), flatten after drop; each result is compared
    with the model of a tree that never had those levels"""
    m = treemodel.Tree(model_data)
    after = ctx.get('after', [])
    fl = _call('flatten_raised', ctx, tt.flatten)
    compare(fl, m.flattened(), dict(ctx, after=after + ['flatten']), stats)
    stats['flatten'] += 1
    if max_depth <= 0:
        return
    for lv in m.h[:-1]:
        c2 = dict(ctx, after=after + [f'drop:{lv}'])
        dropped = _call('drop_level_raised', c2, tt.drop_level, lv)
        want = m.dropped(lv)
        compare(dropped, want, c2, stats)
        stats['drop'] += 1
        if lv == m.h[0]:
            stats['drop_top'] += 1
        transformations(dropped, want, c2, stats, max_depth - 1)


# ---------------------------------------------------------------------------------------------------- malformed
NOT_STR = [7, None, ('t', 1), 1.5, b'b']


def _with(data, level, newlevel):
    d = dict(data)
    d[level] = newlevel
    return d


def _lists(level_dict):
    return {k: list(v) for k, v in level_dict.items()}


def one_edit_variants(data):
    """(class, description, tree) for every one-edit malformed variant of a valid tree.
    Only edits that break 'every node below the top has exactly one parent, every listed child exists, no cell in
    two leaves, one key per level, string node names' are produced."""
    h = list(data['hierarchy'])
    ghost = '__no_such_node__'
    for li in range(1, len(h)):
        pl, cl = h[li - 1], h[li]
        parents = list(data[pl].keys())
        for p in parents:
            for c in data[pl][p]:
                # -- a child given a second parent
                for q in parents:
                    if q == p:
                        continue
                    for pos in ('end', 'begin'):
                        lv = _lists(data[pl])
                        if pos == 'end':
                            lv[q].append(c)
                        else:
                            lv[q].insert(0, c)
                        yield 'second_parent', {'level': cl, 'child': c, 'extra_parent': q, 'pos': pos}, _with(data, pl, lv)
                # -- the listed child is renamed to something that does not exist (the real one becomes an orphan)
                lv = _lists(data[pl])
                lv[p][lv[p].index(c)] = ghost
                yield 'child_missing', {'parent': [pl, p], 'renamed_child': c}, _with(data, pl, lv)
                # -- the child is listed but its key is gone from the next level
                nl = dict(data[cl])
                nl.pop(c)
                yield 'child_missing', {'parent': [pl, p], 'deleted_key': c}, _with(data, cl, nl)
                # -- the child is not listed any more: orphan
                lv = _lists(data[pl])
                lv[p].remove(c)
                yield 'orphan', {'level': cl, 'node': c, 'unlisted_from': p}, _with(data, pl, lv)
            # -- an additional listed child that does not exist
            for pos in ('end', 'begin'):
                lv = _lists(data[pl])
                if pos == 'end':
                    lv[p].append(ghost)
                else:
                    lv[p].insert(0, ghost)
                yield 'child_missing', {'parent': [pl, p], 'added': ghost, 'pos': pos}, _with(data, pl, lv)
            # -- a grandchild listed as a child (exists, but not at the next level)
            if li + 1 < len(h):
                for c in data[pl][p][:1]:
                    for g in list(data[cl][c])[:1]:
                        if g not in data[cl]:
                            lv = _lists(data[pl])
                            lv[p].append(g)
                            yield 'child_missing', {'parent': [pl, p], 'added_grandchild': g}, _with(data, pl, lv)
        # -- a node nobody lists
        nl = dict(data[cl])
        nl['__orphan__'] = []
        yield 'orphan', {'level': cl, 'added_node': '__orphan__'}, _with(data, cl, nl)
    # -- the same reference cell in two leaves
    leaf = h[-1]
    leaves = list(data[leaf].keys())
    for a in leaves:
        rows = list(data[leaf][a])
        for r in ([rows[0], rows[-1]] if len(rows) > 1 else rows):
            for b in leaves:
                if a == b:
                    continue
                for pos in ('end', 'begin'):
                    nl = _lists(data[leaf])
                    if pos == 'end':
                        nl[b].append(r)
                    else:
                        nl[b].insert(0, r)
                    yield 'cell_in_two_leaves', {'cell': r, 'from': a, 'also_in': b, 'pos': pos}, _with(data, leaf, nl)
    # -- level keys
    for lv in h:
        d = dict(data)
        d.pop(lv)
        yield 'missing_level_key', {'removed_key': lv}, d
    d = dict(data)
    d.pop('hierarchy')
    yield 'missing_level_key', {'removed_key': 'hierarchy'}, d
    for i in range(len(h) + 1):
        d = dict(data)
        d['hierarchy'] = h[:i] + ['__ghost_level__'] + h[i:]
        yield 'missing_level_key', {'hierarchy_gained': '__ghost_level__', 'at': i}, d
    for extra in ({}, {'x': []}):
        d = dict(data)
        d['__extra_level__'] = extra
        yield 'extra_level_key', {'added_key': '__extra_level__', 'value': extra}, d
    for i in range(len(h)):
        d = dict(data)
        d['hierarchy'] = h[:i] + h[i + 1:]
        yield 'extra_level_key', {'hierarchy_lost': h[i]}, d
    # -- a node whose name is not a string (renamed consistently in its parent's list)
    for li, lv in enumerate(h):
        for ni, n in enumerate(list(data[lv].keys())):
            for bad in (NOT_STR if ni == 0 else NOT_STR[:1]):
                d = dict(data)
                d[lv] = {(bad if k == n else k): v for k, v in data[lv].items()}
                if li > 0:
                    pl = h[li - 1]
                    d[pl] = {k: [bad if c == n else c for c in v] for k, v in data[pl].items()}
                yield 'non_string_node', {'level': lv, 'node': n, 'renamed_to': repr(bad)}, d


def check_malformed(data, stats, cap):
    from cell_type_mapper.taxonomy.taxonomy_tree import TaxonomyTree
    variants = list(one_edit_variants(data))
    if cap is not None and len(variants) > cap:
        # deterministic thinning that keeps every class
        step = len(variants) / float(cap)
        keep = sorted({int(i * step) for i in range(cap)})
        variants = [variants[i] for i in keep]
        stats['variants_thinned'] += 1
    seen = set()
    for cls, desc, d in variants:
        if treemodel.is_valid_tree(d):
            raise RuntimeError(f'harness: edit {cls} {desc} left the tree valid')
        try:
            TaxonomyTree(data=d)
        except Exception:   # noqa: rejection is the expected outcome
            stats['malformed_rejected'] += 1
            seen.add(cls)
            continue
        raise Violation('malformed_accepted', {'edit_class': cls, 'edit': desc,
                                               'tree': {k: v for k, v in data.items() if k not in treemodel.META_KEYS}})
    return seen


# ---------------------------------------------------------------------------------------------------- check
def _new_stats():
    return {k: 0 for k in ('trees_compared', 'ancestor_checks', 'partition_checks', 'pair_checks', 'parents_with_pairs',
                           'round_trips', 'flatten', 'drop', 'drop_top', 'malformed_rejected', 'variants_thinned')}


def check(spec):
    with warnings.catch_warnings():
        warnings.simplefilter('ignore')
        if spec['kind'] == 'tree':
            return check_tree(spec)
        return check_labels(spec)


def check_tree(spec):
    from cell_type_mapper.taxonomy.taxonomy_tree import TaxonomyTree
    data = spec['tree']
    if not treemodel.is_valid_tree(data):
        raise RuntimeError('harness: generated tree is not valid')
    stats = _new_stats()
    m = treemodel.Tree(data)
    ctx = {}
    before = copy.deepcopy(data)
    try:
        tt = TaxonomyTree(data=data)
    except Exception as e:   # noqa
        raise Violation('valid_rejected', {'error': f'{type(e).__name__}: {str(e)[:300]}'})
    compare(tt, data, ctx, stats)
    # the same tree re-read from files (the paths recur from case to case within a shard process, with other contents)
    import h5py
    with sandbox() as d:
        s = _call('to_str_raised', ctx, tt.to_str)
        jp = d / 'taxonomy.json'
        jp.write_text(s)
        tt4 = _call('from_json_file_raised', ctx, TaxonomyTree.from_json_file, jp)
        compare(tt4, data, {'after': ['to_str->file->from_json_file']}, stats, serial=False)
        hp = d / 'precomputed_stats.h5'
        with h5py.File(hp, 'w') as f:
            f.create_dataset('taxonomy_tree', data=s.encode('utf-8'))
        tt5 = _call('from_precomputed_stats_raised', ctx, TaxonomyTree.from_precomputed_stats, hp)
        compare(tt5, data, {'after': ['stored in a statistics file->from_precomputed_stats']}, stats, serial=False)
        stats['round_trips'] += 2
    depth = len(m.h) - 1 if len(m.h) <= 4 else 2
    transformations(tt, data, ctx, stats, depth)
    # the source object must still describe the same tree (it is used for back-filling after a drop)
    compare(tt, before, {'after': ['all transformations (source object re-read)']}, stats, serial=False)
    seen = check_malformed(data, stats, MAX_VARIANTS[spec.get('origin', 'random')])

    n_leaves = len(m.leaves())
    classes = [f'tree_levels_{len(m.h)}', 'tree_leaves_' + ('1' if n_leaves == 1 else '2-6' if n_leaves <= 6 else '7-12' if n_leaves <= 12 else '13+')]
    classes += [f'edit_{c}' for c in sorted(seen)]
    if any(len(m.children(p)) == 1 for p in m.all_parents()):
        classes.append('has_single_child_parent')
    if len(data[m.h[0]]) == 1:
        classes.append('single_top_node')
    if len(m.h) > 1:
        classes.append('drop_top_level')
    if len(m.h) > 2:
        classes.append('drop_mid_level_and_sequences')
    if any(k in data for k in treemodel.META_KEYS):
        classes.append('has_meta_keys')
    cells = [c for v in data[m.h[-1]].values() for c in v]
    classes.append('cells_none' if not cells else 'cells_str' if isinstance(cells[0], str) else 'cells_int')
    if stats['parents_with_pairs'] == 0:
        classes.append('no_pairs_anywhere')
    dfs = [lf for n in m.nodes(m.h[0]) for lf in m.leaves_under(m.h[0], n)]
    if dfs != sorted(dfs):
        classes.append('alphabetical_order_differs_from_structural')
    return Case(len(m.h) >= 2 and n_leaves >= 2, classes, info=stats)


# ---- label tables
def table_model(hierarchy, records):
    """own reading of a label table: level -> node -> children / row indices; and whether it is a tree"""
    h = list(hierarchy)
    out = {'hierarchy': h}
    for lv in h:
        out[lv] = {}
    is_tree = True
    parent_of = {}
    for i, rec in enumerate(records):
        labs = [str(x) for x in rec]
        for li, lv in enumerate(h):
            node = out[lv].setdefault(labs[li], [])
            if li == len(h) - 1:
                node.append(i)
            elif labs[li + 1] not in node:
                node.append(labs[li + 1])
            if li > 0:
                key = (lv, labs[li])
                if parent_of.setdefault(key, labs[li - 1]) != labs[li - 1]:
                    is_tree = False
    return out, is_tree


def check_labels(spec):
    from cell_type_mapper.taxonomy.taxonomy_tree import TaxonomyTree
    from cell_type_mapper.taxonomy.utils import get_taxonomy_tree
    h = list(spec['hierarchy'])
    records = spec['records']
    want, is_tree = table_model(h, records)
    stats = _new_stats()
    stats['label_tables'] = 1

    def obs_records():
        out = []
        for i, rec in enumerate(records):
            r = {}
            if spec['extra_cols']:
                r['junk'] = f'j{i % 3}'
            r.update({lv: x for lv, x in zip(h, rec)})
            if spec['extra_cols']:
                r['other'] = i
            out.append(r)
        return out

    classes = [f'labels_levels_{len(h)}', 'labels_is_tree' if is_tree else 'labels_not_tree']
    if spec['edited']:
        classes.append('labels_edited_still_tree' if is_tree else 'labels_edited_not_tree')
    if any(not isinstance(x, str) for r in records for x in r):
        classes.append('labels_int')
    elif len(h) > 1 and set(str(r[0]) for r in records) & set(str(r[1]) for r in records):
        classes.append('labels_shared_across_levels')
    ctx = {'via': 'get_taxonomy_tree'}
    try:
        got = get_taxonomy_tree(obs_records=obs_records(), column_hierarchy=list(h))
        err = None
    except Exception as e:   # noqa
        got, err = None, e
    if not is_tree:
        if err is None:
            raise Violation('non_tree_labels_accepted', dict(ctx, hierarchy=h, records=records[:40]))
        stats['non_tree_rejected'] = 1
    else:
        if err is not None:
            raise Violation('tree_labels_rejected', dict(ctx, error=f'{type(err).__name__}: {str(err)[:300]}'))
        extra = set(got.keys()) - set(h) - {'hierarchy'} - set(treemodel.META_KEYS)
        if extra:
            raise Violation('node_set', dict(ctx, unexpected_keys=sorted(extra)))
        _struct_equal(got, want, ctx, cells=True)
        tt = _call('valid_rejected', ctx, TaxonomyTree, data=got)
        compare(tt, want, ctx, stats)
        transformations(tt, want, ctx, stats, len(h) - 1)
    if spec['h5ad']:
        classes.append('labels_via_h5ad')
        _check_h5ad(spec, h, records, want, is_tree, stats)
    n_leaves = len(want[h[-1]])
    nontrivial = len(h) >= 2 and (not is_tree or n_leaves >= 2)
    return Case(nontrivial, classes, info=stats)


def _check_h5ad(spec, h, records, want, is_tree, stats):
    import anndata
    import numpy as np
    import pandas as pd
    from cell_type_mapper.taxonomy.taxonomy_tree import TaxonomyTree
    ctx = {'via': 'from_h5ad'}
    with sandbox() as d:
        cols = {}
        if spec['extra_cols']:
            cols['junk'] = [f'j{i % 3}' for i in range(len(records))]
        for li, lv in enumerate(h):
            cols[lv] = [r[li] for r in records]
        obs = pd.DataFrame(cols, index=[f'cell{i}' for i in range(len(records))])
        a = anndata.AnnData(X=np.zeros((len(records), 2), dtype=np.float32), obs=obs,
                            var=pd.DataFrame(index=['g0', 'g1']))
        path = d / 'labels.h5ad'
        a.write_h5ad(path)
        try:
            tt = TaxonomyTree.from_h5ad(h5ad_path=path, column_hierarchy=list(h))
            err = None
        except Exception as e:   # noqa
            tt, err = None, e
    if not is_tree:
        if err is None:
            raise Violation('non_tree_labels_accepted', dict(ctx, hierarchy=h, records=records[:40]))
        return
    if err is not None:
        raise Violation('tree_labels_rejected', dict(ctx, error=f'{type(err).__name__}: {str(err)[:300]}'))
    compare(tt, want, ctx, stats)
    transformations(tt, want, ctx, stats, min(len(h) - 1, 1))
    stats['h5ad_trees'] = 1


# ---------------------------------------------------------------------------------------------------- atheris
# Thorough tier only: a coverage-guided campaign (atheris/libFuzzer) drives the SAME Hypothesis strategy and the SAME
# check through `fuzz_one_input`. atheris lives in a separate interpreter that lacks h5py/anndata/pandas/scipy; the
# taxonomy code does not use them on the paths exercised here, so inert stand-ins are put on the import path of that
# interpreter only (the h5ad route is switched off there). A violation found is an ordinary spec: it is replayed and
# reported by the normal interpreter.
ATHERIS_PY = os.environ.get('VERIF_ATHERIS_PY', '/opt/veriftools/pyvenv/bin/python')
ATHERIS = {'procs': 4, 'runs': 5000, 'max_s': 100}
_STUB_ROOTS = ('h5py', 'anndata', 'pandas', 'scipy')


def run_stateful(tier, seed, shard, n_shards, out):
    if tier != 'thorough' or shard >= ATHERIS['procs']:
        return
    info = out['info']
    if not os.path.exists(ATHERIS_PY):
        info['atheris_unavailable'] = info.get('atheris_unavailable', 0) + 1
        return
    from pbt.core import derive_seed
    with sandbox() as d:
        res = d / 'result.json'
        cmd = [ATHERIS_PY, '-m', 'pbt.props.c10', '--atheris', str(res),
               str(derive_seed(seed, shard) % (2 ** 31 - 1) + 1), str(ATHERIS['runs']), str(ATHERIS['max_s'])]
        env = dict(os.environ)
        # /verif/.deps holds the atheris build for the repository's interpreter (3.12); it must not
        # shadow the one of the tooling interpreter used here
        env['PYTHONPATH'] = ':'.join(x for x in env.get('PYTHONPATH', '').split(':') if x and not x.rstrip('/').endswith('.deps'))
        try:
            p = subprocess.run(cmd, cwd=str(d), stdout=subprocess.PIPE, stderr=subprocess.STDOUT, env=env,
                               timeout=ATHERIS['max_s'] * 4 + 120)
            rc, log = p.returncode, p.stdout.decode('utf-8', 'replace')
        except subprocess.TimeoutExpired as e:
            rc, log = -1, (e.stdout or b'').decode('utf-8', 'replace') + '\n(timeout)'
        r = json.loads(res.read_text()) if res.exists() else None
    if r is None:
        # the coverage-guided tier is an extra: its absence is recorded, not reported as a harness error
        out['classes']['atheris_no_result'] = out['classes'].get('atheris_no_result', 0) + 1
        return
    out['evaluations'] += r['execs']
    info['atheris_execs'] = info.get('atheris_execs', 0) + r['execs']
    info['atheris_campaigns'] = info.get('atheris_campaigns', 0) + 1
    for c, n in r['classes'].items():
        out['classes']['atheris:' + c] = out['classes'].get('atheris:' + c, 0) + n
    out['nontrivial'] += r['nontrivial']
    if r.get('violation'):
        v = r['violation']
        # confirm with the ordinary interpreter (all real dependencies present) before reporting
        try:
            check(v['spec'])
        except Violation as e:
            out['violations'].append({'spec': v['spec'], 'clause': e.clause, 'detail': str(e.detail)[:2000]})
            return
        raise RuntimeError(f'atheris reported {v["clause"]} but the spec passes in the ordinary interpreter: '
                           f'{json.dumps(v["spec"])[:1500]}')
    if rc != 0:
        out['classes']['atheris_nonzero_exit'] = out['classes'].get('atheris_nonzero_exit', 0) + 1


def _install_stubs():
    import importlib.abc
    import importlib.machinery
    import types

    class _Anything(object):
        def __init__(self, name):
            self._n = name

        def __call__(self, *a, **k):
            raise RuntimeError('stand-in dependency called: ' + self._n)

        def __getattr__(self, k):
            if k.startswith('__'):
                raise AttributeError(k)
            return _Anything(self._n + '.' + k)

        def __mro_entries__(self, bases):
            return (object,)

    class _Stub(types.ModuleType):
        __path__ = []

        def __getattr__(self, k):
            if k.startswith('__'):
                raise AttributeError(k)
            return _Anything(self.__name__ + '.' + k)

    class _Finder(importlib.abc.MetaPathFinder, importlib.abc.Loader):
        def find_spec(self, name, path, target=None):
            if name.split('.')[0] in _STUB_ROOTS:
                return importlib.machinery.ModuleSpec(name, self, is_package=True)
            return None

        def create_module(self, spec):
            return _Stub(spec.name)

        def exec_module(self, module):
            pass

    sys.meta_path.insert(0, _Finder())


def _atheris_main(argv):
    res_path, seed, runs, max_s = argv[0], int(argv[1]), int(argv[2]), int(argv[3])
    import atheris
    from hypothesis import given, settings, HealthCheck
    from pbt.core import spec_hash
    _install_stubs()
    with atheris.instrument_imports(include=['cell_type_mapper.taxonomy']):
        import cell_type_mapper.taxonomy.utils  # noqa
        import cell_type_mapper.taxonomy.taxonomy_tree  # noqa
    state = {'execs': 0, 'classes': {}, 'nontrivial': [], 'violation': None}

    def flush():
        tmp = res_path + '.tmp'
        with open(tmp, 'w') as f:
            json.dump(state, f)
        os.replace(tmp, res_path)

    @settings(database=None, deadline=None, suppress_health_check=list(HealthCheck))
    @given(st.one_of(tree_cases(max_levels=4, max_leaves=8), tree_cases(max_levels=5, max_leaves=12), label_cases()))
    def test(spec):
        if spec['kind'] == 'labels':
            spec['h5ad'] = False
        state['execs'] += 1
        try:
            case = check(spec)
        except Violation as v:
            state['violation'] = {'spec': spec, 'clause': v.clause, 'detail': str(v.detail)[:2000]}
            flush()
            raise
        for c in case.classes:
            state['classes'][c] = state['classes'].get(c, 0) + 1
        if case.nontrivial and len(state['nontrivial']) < 20000:
            state['nontrivial'].append(spec_hash(spec))
        if state['execs'] % 50 == 0:
            flush()

    flush()
    atheris.Setup([sys.argv[0], f'-runs={runs}', f'-seed={seed}', f'-max_total_time={max_s}', '-max_len=8192', '-len_control=0',
                   '-timeout=120', '-rss_limit_mb=4096', '-print_final_stats=1'],
                  test.hypothesis.fuzz_one_input)
    import atexit
    atexit.register(flush)
    try:
        atheris.Fuzz()
    finally:
        flush()


if __name__ == '__main__':
    if len(sys.argv) > 1 and sys.argv[1] == '--atheris':
        _atheris_main(sys.argv[2:])
