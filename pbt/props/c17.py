"""C17 - flattening or dropping a level equals mapping on the reduced taxonomy."""
import copy

import hypothesis.strategies as st

from pbt import gen, mapping, materialize, treemodel
from pbt.core import Case, Violation, sandbox
from pbt.props import common

ID = 'C17'
LEVEL = 'exploration'
TECHNIQUE = 'property-based testing (Hypothesis), differential: run_mapping with drop_level/flatten vs. run_mapping on a reference whose taxonomy was reduced by the harness tree model, common seed, bitwise comparison'
RULE = ('cases = generated mapping inputs x relation in {drop each droppable level (top, middle), flatten, drop a level that does not exist}; '
        'run A uses the option, run B a reduced reference built by the harness; non-trivial = relation is drop/flatten on a taxonomy with >=2 levels and >=2 leaves '
        'and the two runs visit at least one node with a real choice; distinct = distinct spec hash')
ASSUMPTIONS = ['both runs use the same seed, chunking and marker table (for flatten: run B gets the union table under the root key)']


def budget(tier):
    return {'quick': 480, 'thorough': 6000}[tier]


@st.composite
def strategy_(draw):
    deep = draw(st.booleans())
    spec = draw(gen.map_cases(max_cells=6, allow_flatten=False, allow_drop=False, min_levels=3 if deep else 1))
    spec = copy.deepcopy(spec)
    h = spec['tree']['hierarchy']
    rels = ['nonexistent', 'flatten']
    if len(h) > 1:
        rels += ['drop'] * 4
    rel = draw(st.sampled_from(rels))
    spec['relation'] = rel
    if rel == 'drop':
        spec['level'] = draw(st.sampled_from(h[:-1]))
    elif rel == 'nonexistent':
        spec['level'] = draw(st.sampled_from(['no_such_level', '', 'None']))
    return spec


def strategy(tier):
    return strategy_()


KNOWN_TRIGGERS = {}


def sample_view(spec):
    v = common.map_sample_view(spec)
    v['relation'] = spec['relation']
    v['level'] = spec.get('level')
    return v


def check(spec):
    rel = spec['relation']
    t = treemodel.Tree(spec['tree'])
    h = t.h
    cfg_a = dict(spec['cfg'], flatten=False, drop_level=None)
    cfg_b = dict(cfg_a)
    spec_b = copy.deepcopy(spec)
    if rel == 'drop':
        cfg_a['drop_level'] = spec['level']
        spec_b['tree'] = t.dropped(spec['level'])
    elif rel == 'flatten':
        cfg_a['flatten'] = True
        spec_b['tree'] = t.flattened()
        allm = set()
        for v in spec['markers'].values():
            allm |= set(v)
        spec_b['markers'] = {'None': sorted(allm)}
    else:
        cfg_a['drop_level'] = spec['level']
    with sandbox() as d:
        da, db = d / 'a', d / 'b'
        da.mkdir()
        db.mkdir()
        pa = materialize.write_map_case(da, spec)
        pb = materialize.write_map_case(db, spec_b)
        oa = mapping.run(da, pa, cfg_a)
        ob = mapping.run(db, pb, cfg_b)
    if not oa.ok or not ob.ok:
        if oa.ok != ob.ok:
            raise Violation('one_run_raised', {'option_run': repr(oa.error)[:300], 'reduced_run': repr(ob.error)[:300]})
        raise Violation('both_runs_raised', {'option_run': repr(oa.error)[:300]})
    ra, rb = oa.out['results'], ob.out['results']
    hb = spec_b['tree']['hierarchy']
    if len(ra) != len(rb):
        raise Violation('result_count', {})
    choice = 0
    for a, b in zip(ra, rb):
        if a['cell_id'] != b['cell_id']:
            raise Violation('cell_order', {})
        for lv in hb:
            if a[lv] != b[lv]:
                raise Violation('level_differs', {'cell': a['cell_id'], 'level': lv, 'with_option': a[lv], 'reduced_taxonomy': b[lv]})
            if b[lv].get('runner_up_assignment') or b[lv]['bootstrapping_probability'] < 1.0:
                choice += 1
        for lv in h:
            if lv in hb:
                continue
            want = t.ancestor_at(a[h[-1]]['assignment'], lv)
            if a[lv]['assignment'] != want:
                raise Violation('removed_level_not_ancestor', {'cell': a['cell_id'], 'level': lv, 'got': a[lv]['assignment'], 'want': want})
            if a[lv].get('directly_assigned', True):
                raise Violation('removed_level_flagged_direct', {'cell': a['cell_id'], 'level': lv})
        if set(a.keys()) - {'cell_id'} != set(h):
            raise Violation('levels_present', {'cell': a['cell_id'], 'keys': sorted(a.keys())})
    classes = ['rel_' + rel]
    if rel == 'drop':
        classes.append('drop_top' if spec['level'] == h[0] else 'drop_mid')
    n_choice_nodes = sum(1 for p in treemodel.Tree(spec_b['tree']).all_parents()
                         if len(treemodel.Tree(spec_b['tree']).children(p)) >= 2)
    if choice:
        classes.append('split_votes_seen')
    nontrivial = rel in ('drop', 'flatten') and len(h) >= 2 and n_choice_nodes >= 1
    return Case(nontrivial, classes)
