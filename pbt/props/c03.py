"""C03 - confidence fields obey the documented arithmetic contract."""
from pbt import gen, mapping, materialize, treemodel, refmodel
from pbt.core import Case, Violation, sandbox, quiet
from pbt.props import common

ID = 'C03'
LEVEL = 'exploration'
TECHNIQUE = 'property-based testing (Hypothesis) of run_mapping outputs (JSON and the HDF5 rendering) against an arithmetic validity predicate computed with an independent tree model'
RULE = ('cases = generated mapping inputs emphasising iteration count 1, zero runners-up, more runners-up than siblings, single-child chains, '
        'flatten/drop; the predicate is evaluated on every (cell, level); non-trivial = some record has >=1 runner-up, or a single-child level, '
        'or an inferred (not directly assigned) level; distinct = distinct spec hash')
ASSUMPTIONS = ['"nearest level where a real choice was made" is read as: nearest above, else nearest below (root with a single child), unconstrained when no choice exists anywhere']


def budget(tier):
    return {'quick': 640, 'thorough': 8000}[tier]


def strategy(tier):
    return gen.map_cases(max_cells=8, max_iter=300)


KNOWN_TRIGGERS = common.MAP_KNOWN_TRIGGERS


def exclude(spec):
    return common.map_excluded(spec, ID)


def sample_view(spec):
    return common.map_sample_view(spec)


def check(spec):
    from cell_type_mapper.utils.output_utils import hdf5_to_blob
    with sandbox() as d:
        paths = materialize.write_map_case(d, spec)
        o = mapping.run(d, paths, spec['cfg'])
        if not o.ok:
            raise Violation('run_raised', f'{type(o.error).__name__}: {str(o.error)[:400]}')
        st = check_conf(spec, o.out['results'], 'json')
        with quiet():
            blob = hdf5_to_blob(o.config['hdf5_result_path'])
        check_conf(spec, blob['results'], 'hdf5')
    classes = [k for k, v in st.items() if v]
    if spec['cfg']['bootstrap_iteration'] == 1:
        classes.append('single_iteration')
    if spec['cfg']['n_runners_up'] == 0:
        classes.append('zero_runners_requested')
    nontrivial = st['runner_up'] or st['single_child_level'] or st['inferred_level']
    return Case(nontrivial, classes)


def _close(a, b, tol=1e-9):
    return abs(a - b) <= tol * max(1.0, abs(a), abs(b))


def check_conf(spec, results, src='json'):
    cfg = spec['cfg']
    st_tree = treemodel.Tree(spec['tree'])
    vt = treemodel.Tree(refmodel.voting_tree(spec))
    n_iter = cfg['bootstrap_iteration']
    nru = cfg['n_runners_up']
    st = {'runner_up': 0, 'single_child_level': 0, 'inferred_level': 0, 'all_siblings_listed': 0,
          'more_requested_than_siblings': 0, 'root_single_child': 0}
    for r in results:
        cid = r['cell_id']
        ctx0 = {'cell': cid, 'src': src}
        parent = None
        agg = 1.0
        choice_corr = {}   # level -> avg_correlation where a real choice was made
        single = []
        for lv in vt.h:
            rec = r[lv]
            ctx = dict(ctx0, level=lv)
            kids = vt.children(parent)
            p = rec['bootstrapping_probability']
            ru_a = list(rec.get('runner_up_assignment', []))
            ru_p = list(rec.get('runner_up_probability', []))
            ru_c = list(rec.get('runner_up_correlation', []))
            if not rec.get('directly_assigned', False):
                raise Violation('voted_level_not_flagged', ctx)
            nv = p * n_iter
            if abs(nv - round(nv)) > 1e-9 or not (0 < p <= 1 + 1e-12):
                raise Violation('probability_not_whole_votes', dict(ctx, p=p, n_iter=n_iter))
            if not (len(ru_a) == len(ru_p) == len(ru_c)) or len(ru_a) > nru:
                raise Violation('runner_up_lengths', dict(ctx, n=[len(ru_a), len(ru_p), len(ru_c)], requested=nru))
            if len(set(ru_a)) != len(ru_a) or rec['assignment'] in ru_a:
                raise Violation('runner_up_not_distinct', dict(ctx, names=ru_a, winner=rec['assignment']))
            for a in ru_a:
                if a not in kids:
                    raise Violation('runner_up_not_sibling', dict(ctx, name=a, kids=kids))
            last = p
            for q in ru_p:
                if not q > 0:
                    raise Violation('runner_up_probability_not_positive', dict(ctx, probs=ru_p))
                if q > last + 1e-12:
                    raise Violation('runner_up_probability_order', dict(ctx, winner=p, probs=ru_p))
                last = q
                nvq = q * n_iter
                if abs(nvq - round(nvq)) > 1e-9:
                    raise Violation('runner_up_probability_not_whole_votes', dict(ctx, probs=ru_p))
            tot = p + sum(ru_p)
            if tot > 1 + 1e-9:
                raise Violation('probabilities_exceed_one', dict(ctx, total=tot))
            if len(kids) - 1 <= nru:
                st['all_siblings_listed'] += 1
                if len(kids) - 1 < nru:
                    st['more_requested_than_siblings'] += 1
                if not _close(tot, 1.0):
                    raise Violation('probabilities_do_not_sum_to_one', dict(ctx, total=tot, kids=len(kids), requested=nru))
            for c in [rec['avg_correlation']] + ru_c:
                if c is None or not (-1 - 1e-6 <= c <= 1 + 1e-6):
                    raise Violation('correlation_range', dict(ctx, corr=c))
            agg *= p
            if not _close(rec['aggregate_probability'], agg, 1e-12):
                raise Violation('aggregate_probability', dict(ctx, reported=rec['aggregate_probability'], want=agg))
            if ru_a:
                st['runner_up'] += 1
            if len(kids) == 1:
                st['single_child_level'] += 1
                if parent is None:
                    st['root_single_child'] += 1
                if p != 1.0 or ru_a:
                    raise Violation('single_child_not_certain', dict(ctx, p=p, ru=ru_a))
                single.append(lv)
            else:
                choice_corr[lv] = rec['avg_correlation']
            parent = (lv, rec['assignment'])
        # single-child levels carry the correlation of the nearest level with a real choice
        for lv in single:
            i = vt.h.index(lv)
            above = [x for x in vt.h[:i] if x in choice_corr]
            below = [x for x in vt.h[i + 1:] if x in choice_corr]
            if above:
                want = choice_corr[above[-1]]
            elif below:
                want = choice_corr[below[0]]
            else:
                continue
            if not _close(r[lv]['avg_correlation'], want, 1e-12):
                raise Violation('single_child_correlation', dict(ctx0, level=lv, reported=r[lv]['avg_correlation'], want=want))
        # inferred levels repeat the numbers of the voted descendant
        for i, lv in enumerate(st_tree.h):
            if lv in vt.h:
                continue
            st['inferred_level'] += 1
            rec = r[lv]
            ctx = dict(ctx0, level=lv)
            if rec.get('directly_assigned', True):
                raise Violation('inferred_level_flagged_direct', ctx)
            desc = [x for x in st_tree.h[i + 1:] if x in vt.h][0]
            drec = r[desc]
            for k in ('bootstrapping_probability', 'avg_correlation', 'aggregate_probability'):
                if not _close(rec[k], drec[k], 1e-12):
                    raise Violation('inferred_level_numbers', dict(ctx, key=k, got=rec[k], descendant=drec[k]))
            bad = [k for k in rec if k.startswith('runner_up')]
            if src == 'json' and bad:
                raise Violation('inferred_level_has_runner_up_fields', dict(ctx, keys=bad))
            if src != 'json':
                for k in bad:
                    if len(rec[k]) > 0:
                        raise Violation('inferred_level_has_runner_ups', dict(ctx, key=k))
            want = st_tree.ancestor_at(r[st_tree.h[-1]]['assignment'], lv)
            if rec['assignment'] != want:
                raise Violation('inferred_assignment_not_ancestor', dict(ctx, got=rec['assignment'], want=want))
    return st
