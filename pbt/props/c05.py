"""C05 - row access is exact for every on-disk encoding and chunking.

Three kinds of case:

kind 'A'  one generated matrix (position-identifying values) is written as an h5ad file in one on-disk
          layout (dense / CSR / CSC; X or layers/<name>; value dtype; int32 / int64 index arrays; HDF5
          chunk shape) and read back through AnnDataRowIterator: iteration with 1-2 row_chunk_sizes,
          get_chunk(r0, r1), get_batch(rows, sparse False/True), iterator[r]; random access happens before,
          after or in between the iteration steps.  Oracle = the dense numpy matrix of the spec.
kind 'M'  the consequence for the mapper: one generated mapping case is run with the query file written
          as CSR, CSC (also with max_gb = 1e-9) and dense; the 'results' lists must be identical.
kind 'S'  the consequence for the reference statistics: precompute_summary_stats_from_h5ad on the CSR,
          CSC and dense encoding of one generated reference file; the datasets must be identical.
"""
import copy
import json
import math

import numpy as np
import scipy.sparse as sp

from pbt import gen_c05 as g
from pbt import mapping, materialize, pipeline
from pbt.core import Case, Violation, sandbox, quiet
from pbt.props import common

ID = 'C05'
LEVEL = 'exploration'
TECHNIQUE = ('property-based testing (Hypothesis) plus bounded-exhaustive enumeration of small fill patterns: files written by anndata '
             '(re-chunked / index arrays widened by the harness) are read through AnnDataRowIterator and compared exactly with the dense numpy '
             'matrix of the spec; differential runs of the mapper and of the statistics stage over the three encodings of one matrix')
RULE = ('cases = (a) generated matrices up to 40x30 (empty rows / columns, single row / column, one or no stored entry, full, stored zeros, '
        'values at the edge of the dtype, >100 stored entries) x {dense, CSR, CSC} x {X, named layer} x 7 value dtypes x {int32, int64} index arrays x '
        'HDF5 chunk shapes {contiguous, 1, 2, 7, 64, whole array} x row_chunk_size 1..n+5 x max_gb 1e-9..10 x scratch dir given / None x '
        'keep_open x 1-6 random accesses (row ranges, single rows, unsorted lists of distinct rows, sparse and dense) placed before / after / between '
        'the iteration steps; (b) enumerated: every fill pattern of every shape with <=6 cells (quick) / <=3x3 (thorough) x 3 encodings x {X, layer}, each '
        'read with every row_chunk_size 1..n+1, every row range, every single row and every ordered list of distinct rows; '
        '(c) mapping runs over {CSR, CSC, CSC at max_gb=1e-9, dense} of one generated query; (d) statistics runs over {CSR, CSC, dense} of one '
        'generated reference file. non-trivial = [a, b] the file is read in >=2 chunks AND (CSC OR a named layer OR a non-default HDF5 chunk shape); '
        '[c] the query is processed in >=2 chunks; [d] the reference is read in >=2 chunks; distinct = distinct spec hash')
RULE += '; additions: index arrays also uint32 / uint16 / int16, matrices of 257-300 rows, a reading resumed by a for loop after next(), a decoy file of the same base name read first through the same scratch directory'
ASSUMPTIONS = ['sparse files are canonical (sorted, duplicate-free indices) as scipy/anndata write them; explicit stored zeros are allowed',
               'n_rows >= 1 and n_cols >= 1; row ranges are non-empty; row lists are non-empty and duplicate-free (h5py rejects repeats)',
               'the dtype of a returned block is not asserted, its values are (np.array_equal against the stored dtype)',
               'a layer is addressed by its bare name (layer="raw" -> layers/raw) and X by "X", as the constructor documents',
               'scratch files of the CSC conversion are not asserted here (C19)',
               'mapping / statistics outputs are compared for identity between encodings only (their correctness is C01-C03 / C09)']
EXHAUSTIVE = {'quick': False, 'thorough': True}

SHAPES_QUICK = [(1, 1), (1, 2), (2, 1), (1, 3), (3, 1), (2, 2), (2, 3), (3, 2)]
SHAPES_THOROUGH = SHAPES_QUICK + [(3, 3)]


def budget(tier):
    return {'quick': 2560, 'thorough': 32000}[tier]


def strategy(tier):
    # share of the paired mapping / statistics runs: ~4+3 per 160 cases (about a quarter of the CPU time)
    return g.cases((4, 3))


def enumerate_specs(tier):
    return g.enumerated(SHAPES_QUICK if tier == 'quick' else SHAPES_THOROUGH)


KNOWN_TRIGGERS = dict((k, (lambda s, p=p: s.get('kind') == 'M' and p(s['case']))) for k, p in common.MAP_KNOWN_TRIGGERS.items())


def exclude(spec):
    if spec.get('kind') == 'M':
        return common.map_excluded(spec['case'], ID)
    return False


def sample_view(spec):
    k = spec.get('kind')
    if k == 'M':
        return {'kind': 'M', 'case': common.map_sample_view(spec['case'])}
    if k == 'S':
        return spec
    v = {x: spec[x] for x in ('kind', 'mat', 'file', 'row_chunk_sizes', 'max_gb', 'tmp_dir', 'keep_open', 'order')}
    v['ops'] = spec['ops'][:6] + ([f'... {len(spec["ops"])} in total'] if len(spec['ops']) > 6 else [])
    return v


def check(spec):
    k = spec.get('kind', 'A')
    if k == 'A':
        return check_access(spec)
    if k == 'M':
        return check_mapping(spec)
    if k == 'S':
        return check_stats(spec)
    raise ValueError(k)


# ------------------------------------------------------------------ kind A
def _lib(clause, ctx, fn):
    """call into the library; its exceptions are observations"""
    try:
        with quiet():
            return fn()
    except StopIteration:
        raise
    except Exception as e:
        raise Violation(clause, dict(ctx, error=f'{type(e).__name__}: {str(e)[:300]}'))


def _same(clause, ctx, got, want, sparse=None):
    """got must be the block `want` (exact values, exact shape)"""
    if sparse is True:
        if not sp.issparse(got):
            raise Violation(clause + '_type', dict(ctx, got_type=type(got).__name__, want='scipy sparse matrix'))
        got = got.toarray()
    elif sp.issparse(got):
        raise Violation(clause + '_type', dict(ctx, got_type=type(got).__name__, want='dense array'))
    got = np.asarray(got)
    if got.shape != want.shape:
        raise Violation(clause + '_shape', dict(ctx, got=list(got.shape), want=list(want.shape)))
    if not np.array_equal(got, want):
        bad = np.argwhere(got != want)
        i, j = (int(v) for v in bad[0])
        raise Violation(clause + '_values', dict(ctx, n_wrong=int(len(bad)), first=[i, j],
                                                 got=repr(got[i, j]), want=repr(want[i, j]),
                                                 got_block=got.tolist() if got.size <= 24 else None,
                                                 want_block=want.tolist() if want.size <= 24 else None))


def _do_op(it, op, x, ctx):
    if op['op'] == 'chunk':
        r0, r1 = op['r0'], op['r1']
        c = dict(ctx, op=op)
        res = _lib('get_chunk_raised', c, lambda: it.get_chunk(r0, r1))
        if not (isinstance(res, tuple) and len(res) == 3):
            raise Violation('get_chunk_return', dict(c, got=type(res).__name__))
        if (int(res[1]), int(res[2])) != (r0, r1):
            raise Violation('get_chunk_bounds', dict(c, got=[int(res[1]), int(res[2])]))
        _same('get_chunk', c, res[0], x[r0:r1])
    elif op['op'] == 'item':
        r = op['r']
        c = dict(ctx, op=op)
        res = _lib('getitem_raised', c, lambda: it[r])
        if not (isinstance(res, tuple) and len(res) == 3):
            raise Violation('getitem_return', dict(c, got=type(res).__name__))
        if (int(res[1]), int(res[2])) != (r, r + 1):
            raise Violation('getitem_bounds', dict(c, got=[int(res[1]), int(res[2])]))
        _same('getitem', c, res[0], x[r:r + 1])
    else:
        rows = list(op['rows'])
        for sparse in (False, True):
            c = dict(ctx, op=op, sparse=sparse)
            arg = list(rows)
            res = _lib('get_batch_raised', c, lambda: it.get_batch(arg, sparse=sparse))
            if arg != rows:
                raise Violation('get_batch_mutates_argument', dict(c, after=arg))
            _same('get_batch', c, res, x[rows], sparse=sparse)


def check_access(spec):
    from cell_type_mapper.anndata_iterator.anndata_iterator import AnnDataRowIterator
    m, f = spec['mat'], spec['file']
    x, P = g.expand_matrix(m)
    n, n_cols = x.shape
    ops = spec['ops']
    info = {'iterators': 0, 'chunks_compared': 0, 'random_accesses': 0}
    with sandbox() as d:
        path = d / 'm.h5ad'
        with quiet():
            facts = g.write_matrix_file(path, x, P, f)
        tmp = None
        if spec['tmp_dir']:
            tmp = d / 'scratch'
            tmp.mkdir()
        layer_arg = 'X' if f['layer'] is None else f['layer']
        if tmp is not None and f['enc'] != 'dense' and n > 1 and spec.get('decoy', True):
            # another file of the same base name (in another directory, holding the rows in reverse order) is read
            # first through the same scratch directory: what it leaves there must not leak into the reading below
            (d / 'other').mkdir()
            with quiet():
                g.write_matrix_file(d / 'other' / 'm.h5ad', x[::-1].copy(), P[::-1].copy(), f)
            ctx0 = {'decoy_file_of_same_name': True, 'shape': [n, n_cols]}
            it0 = _lib('constructor_raised', ctx0, lambda: AnnDataRowIterator(
                h5ad_path=str(d / 'other' / 'm.h5ad'), row_chunk_size=spec['row_chunk_sizes'][0], layer=layer_arg,
                tmp_dir=str(tmp), log=None, max_gb=spec['max_gb'], keep_open=spec['keep_open']))
            for item in _lib('loop_raised', ctx0, lambda: list(it0)):
                _same('chunk_of_decoy_file', dict(ctx0, r0=int(item[1]), r1=int(item[2])), item[0], x[::-1][int(item[1]):int(item[2])])
            del it0
        for rcs in spec['row_chunk_sizes']:
            ctx = {'row_chunk_size': rcs, 'shape': [n, n_cols]}
            it = _lib('constructor_raised', ctx, lambda: AnnDataRowIterator(
                h5ad_path=str(path), row_chunk_size=rcs, layer=layer_arg,
                tmp_dir=None if tmp is None else str(tmp), log=None,
                max_gb=spec['max_gb'], keep_open=spec['keep_open']))
            info['iterators'] += 1
            if int(it.n_rows) != n:
                raise Violation('n_rows', dict(ctx, got=int(it.n_rows), want=n))
            queue = list(ops)
            if spec['order'] == 'before':
                for op in queue:
                    _do_op(it, op, x, ctx)
                    info['random_accesses'] += 1
                queue = []
            expect_r0 = 0
            n_chunks = 0
            held = []      # every block handed out is kept, as `list(iterator)` or np.vstack would do
            stream = iter(it)
            while True:
                try:
                    item = _lib('next_raised', dict(ctx, at_row=expect_r0), lambda: next(stream))
                except StopIteration:
                    break
                n_chunks += 1
                if n_chunks > n + 1:
                    raise Violation('iteration_does_not_end', dict(ctx, chunks=n_chunks))
                if not (isinstance(item, tuple) and len(item) == 3):
                    raise Violation('next_return', dict(ctx, got=type(item).__name__))
                chunk, r0, r1 = item
                r0, r1 = int(r0), int(r1)
                if expect_r0 >= n:
                    raise Violation('rows_after_the_end', dict(ctx, got=[r0, r1]))
                want = (expect_r0, min(n, expect_r0 + rcs))
                if (r0, r1) != want:
                    raise Violation('chunk_bounds', dict(ctx, got=[r0, r1], want=list(want)))
                _same('chunk', dict(ctx, r0=r0, r1=r1), chunk, x[r0:r1])
                held.append((chunk, r0, r1))
                info['chunks_compared'] += 1
                expect_r0 = r1
                if spec['order'] == 'interleaved' and queue:
                    _do_op(it, queue.pop(0), x, ctx)
                    info['random_accesses'] += 1
            if expect_r0 != n:
                raise Violation('rows_missing', dict(ctx, delivered_up_to=expect_r0, n_rows=n))
            try:
                extra = _lib('next_raised_after_end', ctx, lambda: next(stream))
                raise Violation('rows_after_the_end', dict(ctx, got=[int(extra[1]), int(extra[2])]))
            except StopIteration:
                pass
            for op in queue:
                _do_op(it, op, x, ctx)
                info['random_accesses'] += 1
            # the rows delivered earlier must still hold their values after every later read
            # (a block that aliases an internal buffer would have been overwritten by now)
            for chunk, r0, r1 in held:
                _same('block_changed_after_later_reads', dict(ctx, r0=r0, r1=r1), chunk, x[r0:r1])
            del held
            del stream
            del it
            # the same reading resumed: the first k chunks taken with next(), the rest by a for loop over the same
            # object (a reader that peeks at the first chunk and then loops) - still every row once, in file order
            if rcs < n and (spec.get('resume', 'all') == 'all' or (spec.get('resume') == 'first' and rcs == min(spec['row_chunk_sizes']))):
                n_total = -(-n // rcs)
                k = 1 + (spec['mat'].get('seed', 0) + rcs) % max(1, n_total - 1)
                it2 = _lib('constructor_raised', ctx, lambda: AnnDataRowIterator(
                    h5ad_path=str(path), row_chunk_size=rcs, layer=layer_arg,
                    tmp_dir=None if tmp is None else str(tmp), log=None,
                    max_gb=spec['max_gb'], keep_open=spec['keep_open']))
                got_bounds = []
                for _ in range(k):
                    item = _lib('next_raised', dict(ctx, resumed=True), lambda: next(it2))
                    got_bounds.append([int(item[1]), int(item[2])])
                    _same('chunk_resumed', dict(ctx, r0=int(item[1]), r1=int(item[2])), item[0], x[int(item[1]):int(item[2])])

                def _rest():
                    out = []
                    for item in it2:
                        out.append(item)
                        if len(out) > n + 1:
                            break
                    return out
                for item in _lib('loop_raised', dict(ctx, resumed=True), _rest):
                    got_bounds.append([int(item[1]), int(item[2])])
                    _same('chunk_resumed', dict(ctx, r0=int(item[1]), r1=int(item[2])), item[0], x[int(item[1]):int(item[2])])
                want_bounds = [[a, min(n, a + rcs)] for a in range(0, n, rcs)]
                if got_bounds != want_bounds:
                    raise Violation('rows_not_once_in_order_when_loop_follows_next',
                                    dict(ctx, taken_with_next=k, got=got_bounds[:12], want=want_bounds[:12]))
                info['chunks_compared'] += len(got_bounds)
                del it2
    # ---- classes
    enc = f['enc']
    nnz = int(P.sum())
    rcs_all = spec['row_chunk_sizes']
    multi = any(r < n for r in rcs_all)
    chunked = facts['chunks'] is not None
    classes = ['A', 'enc_' + enc, 'loc_layer' if f['layer'] else 'loc_X', 'dtype_' + m['dtype']]
    if chunked:
        c0 = facts['chunks'][0]
        classes.append('h5chunk_1' if c0 == 1 else 'h5chunk_small' if c0 <= 7 else 'h5chunk_large')
    else:
        classes.append('h5_contiguous')
    if f.get('idx64'):
        classes.append('index_' + str(facts.get('idx_dtype', 'int64')))
    classes.append('multi_chunk' if multi else 'single_chunk')
    for r in rcs_all:
        if r == 1 and n > 1:
            classes.append('row_chunk_1')
        if r > n:
            classes.append('row_chunk_beyond_n')
        if r < n and n % r == 0:
            classes.append('row_chunk_divides_n')
        if r < n and n % r != 0:
            classes.append('row_chunk_ragged_tail')
    if n == 1:
        classes.append('single_row')
    if n_cols == 1:
        classes.append('single_col')
    if nnz == 0:
        classes.append('no_stored_entry')
    else:
        if (~P.any(axis=1)).any():
            classes.append('has_empty_row')
        if (~P.any(axis=0)).any():
            classes.append('has_empty_col')
    if m.get('stored_zeros') and enc != 'dense' and bool((P & (x == 0)).any()):
        classes.append('stored_zero')
    if m.get('big'):
        classes.append('values_at_dtype_edge')
    if enc == 'csc':
        b = spec['max_gb']
        classes.append('budget_min' if b <= 1e-8 else 'budget_mid' if b < 1e-3 else 'budget_large')
        if nnz > 100:
            classes.append('csc_gt100_entries')
            if b <= 4e-6:
                classes.append('csc_gt100_entries_min_budget')
        classes.append('tmp_dir_given' if spec['tmp_dir'] else 'tmp_dir_none')
    if not spec['keep_open']:
        classes.append('keep_open_false')
    for op in ops:
        if op['op'] == 'batch':
            rows = op['rows']
            if len(rows) > 1 and rows != sorted(rows):
                classes.append('batch_unsorted')
            if len(rows) > 1 and sorted(rows) != list(range(min(rows), max(rows) + 1)):
                classes.append('batch_with_gaps')
    classes.append('order_' + spec['order'])
    classes = sorted(set(classes))
    nontrivial = multi and (enc == 'csc' or bool(f['layer']) or chunked)
    return Case(nontrivial, classes, info=info)


# ------------------------------------------------------------------ kind M
def check_mapping(spec):
    case = spec['case']
    cfg = case['cfg']
    runs = [('csr', None), ('csc', None), ('dense', None)]
    if cfg.get('max_gb') != 1e-9:
        runs.insert(2, ('csc', 1e-9))
    outcomes = []
    with sandbox() as d:
        for enc, gb in runs:
            sub = d / f'{enc}_{"cfg" if gb is None else "min"}'
            sub.mkdir()
            s = copy.deepcopy(case)
            s['query']['enc'] = enc
            if gb is not None:
                s['cfg']['max_gb'] = gb
            paths = materialize.write_map_case(sub, s)
            o = mapping.run(sub, paths, s['cfg'])
            label = enc if gb is None else f'{enc}@max_gb={gb}'
            if o.ok:
                if o.out is None or 'results' not in o.out:
                    raise Violation('mapping_no_results', {'encoding': label})
                outcomes.append((label, 'ok', json.dumps(o.out['results'], sort_keys=True)))
            else:
                outcomes.append((label, 'raised', f'{type(o.error).__name__}: {str(o.error)[:300]}'))
    base = outcomes[0]
    for other in outcomes[1:]:
        if other[1] != base[1]:
            raise Violation('mapping_outcome_differs_by_encoding',
                            {base[0]: base[1:][:1] + ((base[2][:300],) if base[1] == 'raised' else ()),
                             other[0]: other[1:][:1] + ((other[2][:300],) if other[1] == 'raised' else ())})
        if base[1] == 'ok' and other[2] != base[2]:
            a, b = json.loads(base[2]), json.loads(other[2])
            first = next((i for i, (u, v) in enumerate(zip(a, b)) if u != v), None)
            raise Violation('mapping_differs_by_encoding',
                            {'encodings': [base[0], other[0]], 'first_differing_record': first,
                             base[0]: a[first] if first is not None else len(a),
                             other[0]: b[first] if first is not None else len(b)})
    n = len(case['query']['cells'])
    eff = min(max(1, math.ceil(n / cfg['n_processors'])), cfg['chunk_size'])
    classes = ['M', 'M_dtype_' + case['query']['dtype'], 'M_multi_chunk' if n > eff else 'M_single_chunk']
    if base[1] != 'ok':
        classes.append('M_all_encodings_raised')
    x = materialize.expand_query(case['query'])
    if int((x != 0).sum()) > 100:
        classes.append('M_gt100_entries')
    if int((x != 0).sum()) == 0:
        classes.append('M_no_stored_entry')
    return Case(base[1] == 'ok' and n > eff, classes, info={'mapping_runs': len(runs)})


# ------------------------------------------------------------------ kind S
def check_stats(spec):
    rs = spec['rs']
    h = rs['tree']['hierarchy']
    contents = []
    with sandbox() as d:
        for enc in ('csr', 'csc', 'dense'):
            sub = d / enc
            sub.mkdir()
            tmp = sub / 'tmp'
            tmp.mkdir()
            pipeline.write_ref_h5ad(sub / 'ref.h5ad', dict(rs, enc=enc))
            try:
                pipeline.run_stats(sub / 'ref.h5ad', h, sub / 'stats.h5', tmp,
                                   n_processors=spec['n_processors'], rows_at_a_time=spec['rows_at_a_time'],
                                   normalization=spec['normalization'])
                contents.append((enc, 'ok', pipeline.h5_content(sub / 'stats.h5')))
            except Exception as e:
                contents.append((enc, 'raised', f'{type(e).__name__}: {str(e)[:300]}'))
    base = contents[0]
    for other in contents[1:]:
        if other[1] != base[1]:
            raise Violation('stats_outcome_differs_by_encoding',
                            {base[0]: base[1] if base[1] == 'ok' else base[2], other[0]: other[1] if other[1] == 'ok' else other[2]})
        if base[1] == 'ok' and other[2] != base[2]:
            keys = sorted(set(base[2]) | set(other[2]))
            diff = [k for k in keys if base[2].get(k) != other[2].get(k)]
            raise Violation('stats_differ_by_encoding', {'encodings': [base[0], other[0]], 'datasets': diff})
    X, rows, genes, cells, _ = pipeline.expand_ref_dataset(rs)
    n = X.shape[0]
    multi = spec['rows_at_a_time'] < n
    classes = ['S', 'S_dtype_' + rs['dtype'], 'S_' + spec['normalization'], 'S_multi_chunk' if multi else 'S_single_chunk',
               f'S_workers_{spec["n_processors"]}']
    if base[1] != 'ok':
        classes.append('S_all_encodings_raised')
    if int((X != 0).sum()) > 100:
        classes.append('S_gt100_entries')
    return Case(base[1] == 'ok' and multi, classes, info={'stats_runs': 3})
