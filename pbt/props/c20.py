"""C20 - cloud-safe outputs reveal no absolute path of the host."""
import copy
import json
import os
import pathlib
import sys

import h5py
import hypothesis.strategies as st

from pbt import gen, inject, mapping, materialize
from pbt.core import Case, Violation, sandbox, quiet
from pbt.props import common

ID = 'C20'
LEVEL = 'exploration'
TECHNIQUE = 'property-based testing (Hypothesis) with fault injection: generated directory layouts / file names and failure classes; substring search of config+log (JSON, HDF5) and the log file for every sensitive root, with a cloud_safe=False twin run as vacuity guard'
RULE = ('cases = generated mapping inputs x directory and file names with punctuation (commas, quotes, brackets, =, ;, :) x outcome class '
        '(success, missing/garbled query|stats|marker file, stats file lacking a dataset, bad normalisation, negative counts, marker unknown to the reference, injected worker failure) '
        'x with/without separate log file; non-trivial = the twin run with cloud_safe=False did expose a sensitive root in its recorded config/log; distinct = distinct spec hash')
RULE += '; failure classes include unwritable destinations and file names longer than 255 bytes'
ASSUMPTIONS = ['sensitive roots = the per-case sandbox root (contains inputs, outputs and scratch), the parent of the package directory, sys.prefix, sys.base_prefix',
               'file and directory names contain no white space (as in the quantifier)']

DIR_NAMES = ['plain', 'a,b', 'x=y', 'br[1]', 'par(2)', "q'uote", 'dq"uote', 'semi;colon', 'at@home', 'plus+', 'colon:x', 'hash#1', 'brace{1}', 'amp&']
FAILS = ['none', 'none', 'none', 'missing_query', 'missing_stats', 'missing_markers', 'garbled_query', 'garbled_stats',
         'garbled_markers', 'stats_lacks_sum', 'bad_normalization', 'negative', 'unknown_marker', 'worker_fault', 'no_shared_marker',
         'tmp_dir_missing', 'query_is_dir', 'stats_lacks_taxonomy', 'markers_wrong_type', 'query_lacks_x', 'csv_dir_missing',
         'hdf5_dir_missing', 'json_dir_missing', 'json_dir_missing', 'stats_is_dir', 'worker_fault_mid', 'query_var_garbled', 'tree_invalid',
         'csv_name_too_long', 'hdf5_name_too_long']


def budget(tier):
    return {'quick': 400, 'thorough': 4000}[tier]


@st.composite
def strategy_(draw):
    spec = copy.deepcopy(draw(gen.map_cases(max_cells=4, max_leaves=6, max_levels=3, max_iter=2, allow_odd=False)))
    lay = {
        'in_dir': draw(st.sampled_from(DIR_NAMES)),
        'out_dir': draw(st.sampled_from(DIR_NAMES)),
        'tmp_name': draw(st.sampled_from(DIR_NAMES)),
        'deco': draw(st.sampled_from(['', ',1', '=2', '[3]', '(4)', "'5", ';6', ':7', '"8'])),
        'log_file': draw(st.booleans()),
        'nested': draw(st.booleans()),
        # how the caller spells the input paths: canonical, with a doubled separator, with a '/./' component
        'spelling': draw(st.sampled_from(['plain', 'plain', 'plain', 'double_slash', 'dot', 'trailing_dir_slash'])),
    }
    spec['layout'] = lay
    spec['fail'] = draw(st.sampled_from(FAILS))
    spec['cfg']['tmp_dir'] = draw(st.sampled_from([True, True, False]))
    spec['cfg']['n_processors'] = draw(st.integers(1, 2))
    return spec


def strategy(tier):
    return strategy_()


KNOWN_TRIGGERS = {}


def sample_view(spec):
    v = common.map_sample_view(spec)
    v['layout'] = spec['layout']
    v['fail'] = spec['fail']
    return v


def roots(d):
    import cell_type_mapper
    pkg_parent = str(pathlib.Path(cell_type_mapper.__file__).resolve().parent.parent)
    r = {str(d), os.path.realpath(str(d)), pkg_parent, sys.prefix, sys.base_prefix}
    return sorted(x for x in r if len(x) > 3)


def collect_texts(cfg_full):
    """all recorded config/log text of one run, keyed by where it was found"""
    texts = {}
    jp = cfg_full['extended_result_path']
    if os.path.exists(jp):
        try:
            blob = json.load(open(jp))
            texts['json.config'] = json.dumps(blob.get('config'))
            texts['json.log'] = json.dumps(blob.get('log'))
        except Exception:
            texts['json.raw'] = open(jp, errors='replace').read()
    hp = cfg_full['hdf5_result_path']
    if hp and os.path.exists(hp):
        try:
            with h5py.File(hp, 'r') as f:
                md = json.loads(f['metadata'][()].decode('utf-8'))
            texts['hdf5.config'] = json.dumps(md.get('config'))
            texts['hdf5.log'] = json.dumps(md.get('log'))
        except Exception:
            pass
    lp = cfg_full['log_path']
    if lp and os.path.exists(lp):
        texts['log_file'] = open(lp, errors='replace').read()
    return texts


def one_run(base, spec, cloud_safe, tag):
    lay = spec['layout']
    fail = spec['fail']
    root = base / tag
    root.mkdir()
    ind = root / lay['in_dir']
    if lay['nested']:
        ind = ind / 'inner' / lay['in_dir']
    ind.mkdir(parents=True)
    deco = lay['deco']
    s = copy.deepcopy(spec)
    if fail == 'negative':
        x = materialize.expand_query(s['query']).astype('float64')
        x[0, 0] = -2.0
        s['query'] = dict(s['query'], x=x.tolist(), dtype='float64')
    if fail == 'unknown_marker':
        s['markers']['None'] = list(s['markers']['None']) + ['zz_unknown']
    if fail == 'no_shared_marker':
        allm = set()
        for v in s['markers'].values():
            allm |= set(v)
        s['query']['genes'] = [g for g in s['query']['genes'] if g not in allm] or ['x_only']
    stats = ind / f'stats{deco}.h5'
    query = ind / f'query{deco}.h5ad'
    markers = ind / f'markers{deco}.json'
    materialize.write_stats(stats, s['tree'], s['ref'])
    materialize.write_query(query, s['query'])
    markers.write_text(json.dumps(s['markers']))
    if fail.startswith('missing_'):
        {'query': query, 'stats': stats, 'markers': markers}[fail[8:]].unlink()
    if fail.startswith('garbled_'):
        {'query': query, 'stats': stats, 'markers': markers}[fail[8:]].write_bytes(b'\x89HDF garbage {"not": json')
    if fail == 'stats_lacks_sum':
        with h5py.File(stats, 'a') as f:
            del f['sum']
    if fail == 'stats_lacks_taxonomy':
        with h5py.File(stats, 'a') as f:
            del f['taxonomy_tree']
    if fail == 'tree_invalid':
        with h5py.File(stats, 'a') as f:
            t = json.loads(f['taxonomy_tree'][()].decode())
            t[t['hierarchy'][-1]]['orphan_leaf'] = []
            if len(t['hierarchy']) == 1:
                t['extra_level'] = {}
            del f['taxonomy_tree']
            f.create_dataset('taxonomy_tree', data=json.dumps(t).encode())
    if fail == 'markers_wrong_type':
        markers.write_text(json.dumps([['None', ['g0']]]))
    if fail == 'query_lacks_x':
        with h5py.File(query, 'a') as f:
            del f['X']
    if fail == 'query_var_garbled':
        with h5py.File(query, 'a') as f:
            del f['var']
            f.create_dataset('var', data=b'garbage')
    if fail == 'query_is_dir':
        query.unlink()
        query.mkdir()
    if fail == 'stats_is_dir':
        stats.unlink()
        stats.mkdir()
    cfg = dict(s['cfg'], cloud_safe=cloud_safe, out_dir=str(root / ('o_' + lay['out_dir'])), tmp_name='t_' + lay['tmp_name'])
    if fail == 'bad_normalization':
        cfg['normalization'] = 'rawr'
    paths = {'stats': stats, 'query': query, 'markers': markers}
    sp = lay.get('spelling', 'plain')
    if sp != 'plain':
        def respell(p):
            p = pathlib.Path(p)
            sep = {'double_slash': '//', 'dot': '/./', 'trailing_dir_slash': '//'}[sp]
            return str(p.parent) + sep + p.name
        paths = {k: respell(v) for k, v in paths.items()}
    plan = None
    if fail == 'worker_fault':
        plan = {0: {'fault': 'exit', 'point': 'before'}}
    if fail == 'worker_fault_mid':
        plan = {0: {'fault': 'raise', 'point': 'mid', 'at': 40}}
    kw = dict(out_prefix='out' + deco, log_file=lay['log_file'])
    if fail == 'tmp_dir_missing':
        cfg = dict(cfg, tmp_no_create=True)
    if fail == 'csv_dir_missing':
        cfg = dict(cfg, csv_override=str(root / 'no_such_dir' / ('res' + deco + '.csv')))
    if fail == 'hdf5_dir_missing':
        cfg = dict(cfg, hdf5_override=str(root / 'no_such_dir' / ('res' + deco + '.h5')))
    if fail == 'csv_name_too_long':
        # a file name the operating system refuses (longer than 255 bytes) inside the existing output directory
        cfg = dict(cfg, csv_override=str(pathlib.Path(cfg.get('out_dir') or root) / ('r' * 253 + deco + '.csv')))
    if fail == 'hdf5_name_too_long':
        cfg = dict(cfg, hdf5_override=str(pathlib.Path(cfg.get('out_dir') or root) / ('r' * 253 + deco + '.h5')))
    if fail == 'json_dir_missing':
        # the extended (JSON) result cannot be written, while the log file can
        cfg = dict(cfg, json_override=str(root / 'no_such_dir' / lay['out_dir'] / ('res' + deco + '.json')))
    if plan:
        with inject.controlled(plan=plan):
            o = mapping.run(root, paths, cfg, **kw)
    else:
        o = mapping.run(root, paths, cfg, **kw)
    return o, collect_texts(o.config)


def check(spec):
    with sandbox() as d:
        rts = roots(d)
        o, texts = one_run(d, spec, True, 'safe')
        if spec['fail'] == 'none' and not o.ok:
            raise Violation('run_raised', f'{type(o.error).__name__}: {str(o.error)[:300]}')
        for where, text in texts.items():
            for r in rts:
                if r in text:
                    i = text.index(r)
                    raise Violation('absolute_path_exposed', {'where': where, 'root_kind': 'sandbox' if r.startswith(str(d)[:8]) and str(d) in r or r == str(d) else 'installation',
                                                              'fail': spec['fail'], 'excerpt': text[max(0, i - 80):i + 120].replace(str(d), '<SANDBOX>')})
        o2, texts2 = one_run(d, spec, False, 'unsafe')
        exposed = any(str(d) in t for t in texts2.values())
        failed = not o.ok
    classes = ['fail_' + spec['fail'], 'raised' if failed else 'succeeded']
    if not texts:
        classes.append('no_recorded_text')
    for w in texts:
        classes.append('has_' + w)
    if spec['fail'] != 'none' and not failed:
        classes.append('failure_class_did_not_fail')
    return Case(exposed, classes)
