"""C13 - on-disk sparse transposition and reshaping preserve the matrix.

Two kinds of case:

kind 'T'  a compressed sparse matrix (pattern + position-identifying values) is written to an
          HDF5 file and transposed by the code under test in one or more *variants*
          (serial / csc_to_csr_on_disk / transpose_by_way_of_disk / parallel; with or
          without the value array; an index sub-range of the minor axis; a memory budget;
          1-5 workers).  The oracle is the transpose written out from the definition in
          numpy (gen_c13.expected_transpose) plus the structural invariants of a
          compressed matrix.
kind 'F'  a file-level operation on small generated h5ad / HDF5 files (pivot, row shuffle,
          column subset, stacking row selections, layer -> X, element-wise HDF5 copy); the
          oracle is the same operation on the in-memory numpy matrix / the source tree.
kind 'S'  the in-memory pointer arithmetic of utils/sparse_utils.py (merge_csr, load_csr,
          load_csc, load_csr_chunk) against numpy slicing / stacking.

An enumerated 'T' spec is compact ({'plan', 'idx', 'skip'}): its variants are a deterministic
function of the spec (_plan_variants) minus the trigger regions named in 'skip' (the still
unrepaired defects, see UNREPAIRED); replay / regression specs carry an explicit 'variants' list
and are never filtered.  C13_NO_EXCLUDE=1 switches every exclusion off.
"""
import os

import h5py
import numpy as np
import pandas as pd

from pbt import gen_c13 as g
from pbt import materialize
from pbt.core import Case, Violation, sandbox, quiet, known_for

import hypothesis.strategies as st

ID = 'C13'
LEVEL = 'exploration'
TECHNIQUE = ('bounded-exhaustive enumeration of sparse fill patterns (every shape <=4x4) and property-based testing '
             '(Hypothesis) of larger matrices and of the file-level operations, against an in-memory numpy/scipy oracle '
             'and the structural invariants of compressed sparse matrices')
RULE = ('cases = (a) enumerated fill patterns: quick = every pattern of every shape <=3x3 (682) plus a deterministic sample of 2000 of the '
        '74272 patterns of the shapes with a side of 4; thorough = all 74954 patterns of every shape <=4x4. Each pattern is transposed '
        'serially with and without value array (complete), for index sub-ranges of the minor axis (all of them with/without values for '
        '<=3x3; three rotating ones per pattern for the shapes with a side of 4), through csc_to_csr_on_disk and transpose_by_way_of_disk, '
        'and with parallel workers (quick: one worker count per <=3x3 pattern; thorough: 1-5 workers x with/without values for every <=3x3 '
        'pattern, one configuration for every 16th larger pattern); '
        '(b) generated matrices up to 30x30 (empty slices, single entry, dense, none, >100 entries, stored zeros) with budgets 1e-9..1, '
        'all four entry points, sub-ranges, 1-5 workers; '
        '(c) generated file-level operations on small h5ad/HDF5 files (pivot, shuffle, subset, stacking, layer->X, HDF5 copy) and the '
        'in-memory pointer arithmetic of sparse_utils (merge_csr, load_csr/csc/csr_chunk). '
        'non-trivial = >=2 stored entries AND the expected result differs from the input arrays (an identity copy would be wrong) '
        '[HDF5 copy: >=1 chunked dataset copied in >=2 hyperslabs]; distinct = distinct spec hash')
RULE += '; additions: matrices of ~300x300 with more than 65 535 entries, stacking with several selections from one file and from both matrices (X / layer) of one file, direct stacking of CSR piece files whose index arrays have any integer width'
ASSUMPTIONS = ['inputs are canonical compressed matrices (sorted, duplicate-free indices) as scipy/anndata write them; every dimension >= 1',
               'row / column selections are non-empty and duplicate-free; shuffle orders are permutations of all rows',
               'subset_csc_h5ad_columns is documented to return the chosen columns in ascending order; the oracle sorts them',
               'all sources of one stacking share one value dtype (a mix is a documented error)',
               'stored values are compared exactly; HDF5 chunk shapes, compression and index dtypes of the outputs are not asserted',
               'trigger regions of the still unrepaired defects (UNREPAIRED below) are excluded by construction and counted']
EXHAUSTIVE = {'quick': False, 'thorough': True}

# Names of KNOWN_TRIGGERS whose defect is not yet repaired in /repo: their trigger regions are
# removed from the search (and counted) so that it continues behind them.  Remove a name once
# its fix from /verif/proposed_fixes is applied - the replay in /verif/regressions/C13 then guards it.
UNREPAIRED = set()   # all seven repairs are applied in /repo (see known_findings.json, 'fixed')


# coverage-guided tier (thorough only): atheris drives the same strategy and oracle through fuzz_one_input
ATHERIS = {'thorough': {'seconds': 150, 'runs': 10000000, 'shards': 4, 'include': ['cell_type_mapper.utils']}}


def budget(tier):
    return {'quick': 960, 'thorough': 16000}[tier]


def strategy(tier):
    return st.one_of(g.transposition_cases(), g.transposition_cases(), g.transposition_cases(),
                     g.fileop_cases(), g.fileop_cases(), g.fileop_cases(), g.sparse_util_cases())


# ------------------------------------------------------------------ trigger regions
def _x_of(f):
    return np.array(f['x'], dtype=np.dtype(f['dtype']))


def _is_sparse(f):
    return f['enc'] in ('csr', 'csc')


def _sparse_arrays_layout(f):
    """layout of the data/indices arrays of the matrix element as the materialiser writes them"""
    nnz = int((_x_of(f) != 0).sum())
    if f['layout'] == 'contiguous':
        return 'contiguous'
    if f['layout'] == 'small_chunks':
        return 'contiguous' if nnz == 0 else 'chunked'      # materialize.rechunk_h5ad writes empty arrays unchunked
    return 'chunked_zero_length' if nnz == 0 else 'chunked'


def _t_variants(pred):
    def p(spec):
        if spec.get('kind') == 'T':
            return any(pred(spec['m'], v) for v in variants_of(spec, skip=()))
        if spec.get('kind') == 'F' and spec['op'] == 'pivot':
            x = _x_of(spec['src'])
            m = {'entries': [[int(i), int(j)] for i, j in zip(*np.nonzero(x))], 'shape': list(x.shape)}
            return pred(m, {'mode': 'parallel', 'use_data': True})
        return False
    return p


def resolved_sources(spec):
    """the selections of an amalgamate case, each with the file that hosts it, the matrix it reads (the file's main
    matrix or its other one) and the layer name to pass"""
    hosts = {s.get('id', k): s for k, s in enumerate(spec['sources']) if 'file' in s}
    out = []
    for k, s in enumerate(spec['sources']):
        if 'file' in s:
            f = s['file']
            out.append({'host': s.get('id', k), 'file': f, 'rows': s['rows'], 'x': _x_of(f),
                        'layer': 'X' if f['layer'] is None else f['layer'], 'reused': False, 'other': False})
        else:
            h = hosts[s['reuse']]
            f = h['file']
            if s['other_layer']:
                x = np.array(h['alt_x'], dtype=np.dtype(f['dtype']))
                layer = 'alt' if f['layer'] is None else 'X'
            else:
                x = _x_of(f)
                layer = 'X' if f['layer'] is None else f['layer']
            out.append({'host': s['reuse'], 'file': f, 'rows': s['rows'], 'x': x, 'layer': layer, 'reused': True,
                        'other': bool(s['other_layer'])})
    return out


def _t_amalgamate_empty_source(spec):
    if spec.get('kind') != 'F' or spec['op'] != 'amalgamate' or not spec['dst_sparse']:
        return False
    return any(int((s['x'][s['rows']] != 0).sum()) == 0 for s in resolved_sources(spec))


def _t_amalgamate_empty_total(spec):
    if spec.get('kind') != 'F' or spec['op'] != 'amalgamate' or not spec['dst_sparse']:
        return False
    return all(int((s['x'][s['rows']] != 0).sum()) == 0 for s in resolved_sources(spec))


def _t_layer2x_empty(spec):
    if spec.get('kind') != 'F' or spec['op'] != 'layer2x' or not _is_sparse(spec['src']):
        return False
    return _sparse_arrays_layout(spec['src']) == 'chunked_zero_length'


def _t_layer2x_contiguous(spec):
    if spec.get('kind') != 'F' or spec['op'] != 'layer2x' or not _is_sparse(spec['src']):
        return False
    return _sparse_arrays_layout(spec['src']) == 'contiguous'


def _t_h5copy_zero_len(spec):
    if spec.get('kind') != 'F':
        return False
    if spec['op'] == 'h5copy':
        f = spec['src']
        if not _is_sparse(f) or _sparse_arrays_layout(f) != 'chunked_zero_length':
            return False
        where = 'X' if f['layer'] is None else 'layers'
        return spec['exclude'] != where
    if spec['op'] == 'h5copy_tree':
        for e in spec['tree']:
            if e['kind'] != 'empty_chunked' or e['path'] in spec['excluded_datasets']:
                continue
            if any(e['path'].startswith(gr + '/') for gr in spec['excluded_groups']):
                continue
            return True
    return False


VARIANT_TRIGGERS = {
    'parallel_no_stored_entry': g.t_parallel_no_entry,
    'parallel_value_array_fewer_entries_than_pointers': g.t_parallel_data_fewer_entries_than_pointers,
}

KNOWN_TRIGGERS = {
    'parallel_no_stored_entry': _t_variants(g.t_parallel_no_entry),
    'parallel_value_array_fewer_entries_than_pointers': _t_variants(g.t_parallel_data_fewer_entries_than_pointers),
    'amalgamate_source_selection_without_entry': _t_amalgamate_empty_source,
    'amalgamate_no_stored_entry': _t_amalgamate_empty_total,
    'copy_layer_to_x_sparse_no_stored_entry': _t_layer2x_empty,
    'copy_layer_to_x_sparse_contiguous_arrays': _t_layer2x_contiguous,
    'h5_copy_zero_length_chunked_dataset': _t_h5copy_zero_len,
}


_ACTIVE = None


def active_triggers():
    """names of the trigger regions kept out of the search: UNREPAIRED plus the entries of known_findings.json;
    C13_NO_EXCLUDE=1 switches the exclusion off (used to show that a repaired tree passes inside the regions)"""
    global _ACTIVE
    if _ACTIVE is None:
        if os.environ.get('C13_NO_EXCLUDE'):
            _ACTIVE = []
        else:
            names = set(UNREPAIRED)
            for k in known_for(ID):
                names.add(k.get('trigger'))
            _ACTIVE = sorted(n for n in names if n in KNOWN_TRIGGERS)
    return _ACTIVE


def exclude(spec):
    return any(KNOWN_TRIGGERS[n](spec) for n in active_triggers())


# ------------------------------------------------------------------ enumerated part
SMALL_SHAPES = [(r, c) for r in range(1, 4) for c in range(1, 4)]
BIG_SHAPES = [(r, c) for r in range(1, 5) for c in range(1, 5) if r == 4 or c == 4]
N_SAMPLE_QUICK = 2000


def _all_patterns(shapes):
    for r, c in shapes:
        for mask in range(2 ** (r * c)):
            yield r, c, mask


def enumerate_specs(tier):
    skip = [n for n in active_triggers() if n in VARIANT_TRIGGERS]
    out = []
    idx = 0
    for r, c, mask in _all_patterns(SMALL_SHAPES):
        out.append(_enum_spec(r, c, mask, 'q3' if tier == 'quick' else 't3', idx, skip))
        idx += 1
    big = list(_all_patterns(BIG_SHAPES))
    if tier == 'quick':
        n = len(big)                       # 74272; 37139 is coprime to it
        stride = 37139
        chosen = sorted({(i * stride + 11) % n for i in range(N_SAMPLE_QUICK)})
        for k in chosen:
            r, c, mask = big[k]
            out.append(_enum_spec(r, c, mask, 'q4', idx, skip))
            idx += 1
    else:
        for r, c, mask in big:
            out.append(_enum_spec(r, c, mask, 't4', idx, skip))
            idx += 1
    return out


def _enum_spec(r, c, mask, plan, idx, skip):
    return {'kind': 'T', 'm': {'shape': [r, c], 'mask': mask, 'vdtype': g.VALUE_DTYPES[idx % len(g.VALUE_DTYPES)]},
            'plan': plan, 'idx': idx, 'skip': list(skip),
            'idx_dtype': 'int64' if idx % 3 == 0 else 'int32', 'src_chunks': [None, 1, 3][idx % 3]}


def _plan_variants(spec):
    """the variants of an enumerated pattern, a deterministic function of (plan, shape, idx)"""
    plan, idx = spec['plan'], spec['idx']
    n_minor = spec['m']['shape'][1]
    gb = g.BUDGETS[idx % len(g.BUDGETS)]
    vs = [{'mode': 'serial', 'use_data': True, 'max_gb': gb},
          {'mode': 'serial', 'use_data': False, 'max_gb': gb}]
    ranges = [(a, b) for a in range(n_minor) for b in range(a + 1, n_minor + 1) if (a, b) != (0, n_minor)]
    if plan in ('q3', 't3'):
        for a, b in ranges:
            vs.append({'mode': 'serial', 'use_data': True, 'max_gb': gb, 'slice': [a, b]})
            vs.append({'mode': 'serial', 'use_data': False, 'max_gb': gb, 'slice': [a, b]})
        vs.append({'mode': 'byway', 'use_data': False, 'max_gb': gb, 'tmp_dir': idx % 2 == 0})
        if plan == 'q3':
            vs.append({'mode': 'csc2csr', 'use_data': idx % 2 == 0, 'max_gb': gb})
            vs.append({'mode': 'parallel', 'use_data': (idx // 5) % 2 == 0, 'max_gb': gb,
                       'n_proc': 1 + idx % 5, 'uint_ok': (idx // 10) % 2 == 0})
        else:
            vs.append({'mode': 'csc2csr', 'use_data': True, 'max_gb': gb})
            vs.append({'mode': 'csc2csr', 'use_data': False, 'max_gb': gb})
            for n_proc in range(1, 6):
                for ud in (True, False):
                    vs.append({'mode': 'parallel', 'use_data': ud, 'max_gb': gb, 'n_proc': n_proc,
                               'uint_ok': (idx + n_proc) % 2 == 0})
    elif plan == 'q4':
        if ranges:
            for k in (idx, idx * 7 + 3):
                a, b = ranges[k % len(ranges)]
                vs.append({'mode': 'serial', 'use_data': k % 2 == 0, 'max_gb': gb, 'slice': [a, b]})
        if idx % 8 == 0:
            vs.append({'mode': 'parallel', 'use_data': (idx // 8) % 2 == 0, 'max_gb': gb,
                       'n_proc': 1 + (idx // 16) % 5, 'uint_ok': (idx // 32) % 2 == 0})
    elif plan == 't4':
        # three of the (up to nine) proper sub-ranges, rotating with the pattern number
        for k in sorted({(idx * 3 + j) % len(ranges) for j in range(3)}) if ranges else []:
            a, b = ranges[k]
            vs.append({'mode': 'serial', 'use_data': (idx + k) % 2 == 0, 'max_gb': gb, 'slice': [a, b]})
        if idx % 8 == 0:
            vs.append({'mode': 'csc2csr', 'use_data': (idx // 8) % 2 == 0, 'max_gb': gb})
            vs.append({'mode': 'byway', 'use_data': False, 'max_gb': gb, 'tmp_dir': (idx // 8) % 2 == 0})
        if idx % 16 == 0:
            vs.append({'mode': 'parallel', 'use_data': (idx // 16) % 2 == 0, 'max_gb': gb,
                       'n_proc': 1 + (idx // 32) % 5, 'uint_ok': (idx // 64) % 2 == 0})
    else:
        raise ValueError(plan)
    return vs


def variants_of(spec, skip=None):
    """-> list of variants to run (explicit 'variants', or the plan minus the trigger regions named in 'skip')"""
    if 'variants' in spec:
        return list(spec['variants'])
    vs = _plan_variants(spec)
    skip = spec.get('skip', []) if skip is None else skip
    preds = [VARIANT_TRIGGERS[n] for n in skip if n in VARIANT_TRIGGERS]
    return [v for v in vs if not any(p(spec['m'], v) for p in preds)]


# ------------------------------------------------------------------ views
def sample_view(spec):
    if spec.get('kind') == 'T':
        m = spec['m']
        v = {'kind': 'T', 'shape': m['shape'], 'nnz': g.nnz_of(m)}
        for k in ('mask', 'family', 'density', 'seed', 'vdtype', 'explicit_zeros'):
            if k in m:
                v[k] = m[k]
        vs = variants_of(spec)
        v['n_variants'] = len(vs)
        v['first_variants'] = vs[:3]
        return v
    if spec.get('kind') == 'S':
        return spec
    out = {k: v for k, v in spec.items() if k not in ('src', 'sources', 'tree')}
    if 'src' in spec:
        f = spec['src']
        out['src'] = {'shape': [len(f['x']), len(f['x'][0])], 'nnz': int((np.array(f['x']) != 0).sum()),
                      'enc': f['enc'], 'layer': f['layer'], 'dtype': f['dtype'], 'layout': f['layout']}
    if 'sources' in spec:
        out['sources'] = [{'shape': list(s['x'].shape), 'enc': s['file']['enc'], 'layer': s['layer'], 'rows': s['rows'],
                           'file': s['host'], 'reused': s['reused']} for s in resolved_sources(spec)]
    if 'tree' in spec:
        out['tree'] = [{k: e.get(k) for k in ('path', 'kind', 'shape', 'layout', 'chunks')} for e in spec['tree']]
    return out


# ------------------------------------------------------------------ the oracle
def check(spec):
    if spec['kind'] == 'T':
        return check_transposition(spec)
    if spec['kind'] == 'S':
        return check_sparse_utils(spec)
    return check_fileop(spec)


def _err(e):
    return f'{type(e).__name__}: {str(e)[:300]}'


def _block_sizes(v, data_bytes, idx_bytes):
    """sizes (in entries) of the load chunk and of the fill block for this budget;
    used only to label cases in the class histogram, never by the oracle"""
    eff = 0.8 * v['max_gb']
    if v['mode'] == 'parallel':
        eff = 0.8 * (0.8 * v['max_gb'] / v['n_proc'])
    load = int(round(eff / 3 * 1024 ** 3)) // (data_bytes + 2 * idx_bytes + 8)
    fill = int(round(eff * 2 / 3 * 1024 ** 3)) // (data_bytes + idx_bytes)
    return max(100, load), max(100, fill)


def check_transposition(spec):
    from cell_type_mapper.utils.csc_to_csr import (
        transpose_sparse_matrix_on_disk, csc_to_csr_on_disk, transpose_by_way_of_disk)
    from cell_type_mapper.utils.csc_to_csr_parallel import transpose_sparse_matrix_on_disk_v2

    m = spec['m']
    n_major, n_minor = m['shape']
    P, V = g.expand_pattern(m)
    nnz = int(P.sum())
    indptr, indices, data = g.compress(P, V, spec.get('idx_dtype', 'int32'))
    variants = variants_of(spec)
    n_planned = len(_plan_variants(spec)) if 'plan' in spec else len(variants)
    classes = set()
    nontrivial = False
    with sandbox() as d:
        src = g.write_compressed(d / 'src.h5', indptr, indices, data, chunks=spec.get('src_chunks'))
        for k, v in enumerate(variants):
            mode = v['mode']
            use_data = bool(v.get('use_data', True))
            sl = tuple(v['slice']) if v.get('slice') else None
            out = d / f'out_{k}.h5'
            ctx = {'variant': v, 'shape': m['shape'], 'nnz': nnz}
            got_data = None
            if mode not in ('serial', 'csc2csr', 'byway', 'parallel'):
                raise ValueError(mode)
            td = None
            if mode == 'byway' and v.get('tmp_dir'):
                td = d / f'tmp_{k}'
                td.mkdir()
            try:
                with quiet():
                    if mode == 'serial':
                        with h5py.File(src, 'r') as f:
                            transpose_sparse_matrix_on_disk(
                                indices_handle=f['indices'], indptr_handle=f['indptr'],
                                data_handle=f['data'] if use_data else None,
                                indices_max=n_minor, max_gb=v['max_gb'], output_path=out,
                                verbose=False, indices_slice=sl)
                    elif mode == 'csc2csr':
                        with h5py.File(src, 'r') as f:
                            csc_to_csr_on_disk(csc_group=f, csr_path=out, array_shape=(n_minor, n_major),
                                               max_gb=v['max_gb'], use_data_array=use_data)
                    elif mode == 'byway':
                        got_indptr, got_indices = transpose_by_way_of_disk(
                            indices=indices, indptr=indptr, indices_max=n_minor, max_gb=v['max_gb'],
                            tmp_dir=None if td is None else str(td))
                    else:
                        transpose_sparse_matrix_on_disk_v2(
                            h5_path=src, indices_tag='indices', indptr_tag='indptr',
                            data_tag='data' if use_data else None, indices_max=n_minor,
                            max_gb=v['max_gb'], output_path=out, output_mode='w', tmp_dir=str(d),
                            n_processors=v['n_proc'], uint_ok=bool(v.get('uint_ok')))
            except Exception as e:
                raise Violation('raised', dict(ctx, error=_err(e)))
            if mode != 'byway':
                with h5py.File(out, 'r') as f:
                    for name in ('indptr', 'indices') + (('data',) if use_data else ()):
                        if name not in f:
                            raise Violation('missing_dataset', dict(ctx, name=name))
                    got_indptr = f['indptr'][()]
                    got_indices = f['indices'][()]
                    if use_data:
                        got_data = f['data'][()]
            a, b = sl if sl is not None else (0, n_minor)
            n_out = b - a
            prob = g.structure_problem(got_indptr, got_indices, got_data, n_out, n_major)
            if prob is not None:
                raise Violation(prob[0], dict(ctx, **prob[1]))
            e_indptr, e_indices, e_data = g.expected_transpose(P, V, sl)
            if len(got_indices) != len(e_indices):
                raise Violation('pointer_ends_at_nnz', dict(ctx, got=int(len(got_indices)), want=int(len(e_indices))))
            if not np.array_equal(np.asarray(got_indptr).astype(np.int64), e_indptr) or \
                    not np.array_equal(np.asarray(got_indices).astype(np.int64), e_indices):
                raise Violation('entries_at_transposed_position',
                                dict(ctx, indptr=np.asarray(got_indptr).tolist()[:40], want_indptr=e_indptr.tolist()[:40],
                                     indices=np.asarray(got_indices).tolist()[:40], want_indices=e_indices.tolist()[:40]))
            if use_data:
                if not np.array_equal(got_data, e_data):
                    raise Violation('values_at_transposed_position',
                                    dict(ctx, data=got_data.tolist()[:40], want=e_data.tolist()[:40]))
            dense = g.densify(got_indptr, got_indices, got_data, n_out, n_major)
            want = (V if use_data else P.astype(np.float64))[:, a:b].T
            if not np.array_equal(dense, want.astype(dense.dtype)):
                raise Violation('dense_matrix', dict(ctx, got=dense.tolist()[:8], want=want.tolist()[:8]))
            # ---- labels
            sub_nnz = int(P[:, a:b].sum())
            if sub_nnz >= 2 and not (len(e_indptr) == len(indptr) and np.array_equal(e_indptr, indptr)
                                     and np.array_equal(e_indices, indices)):
                nontrivial = True
            classes.add('T_' + mode + (f'_{v["n_proc"]}w' if mode == 'parallel' else ''))
            classes.add('T_with_values' if use_data else 'T_without_values')
            if sl is not None:
                classes.add('T_sub_range')
                if sub_nnz == 0 and nnz > 0:
                    classes.add('T_sub_range_without_entry')
            if mode == 'parallel':
                per = int(np.ceil(n_minor / v['n_proc']))
                pieces = [(i0, min(n_minor, i0 + per)) for i0 in range(0, n_minor, per)]
                if any(int(P[:, p0:p1].sum()) == 0 for p0, p1 in pieces) and nnz > 0:
                    classes.add('T_parallel_worker_without_entry')
                if len(pieces) > 1:
                    classes.add('T_parallel_several_pieces')
                if v['n_proc'] > n_minor:
                    classes.add('T_parallel_more_workers_than_indices')
            load, fill = _block_sizes(v, data.dtype.itemsize if use_data else 0, indices.dtype.itemsize)
            if v['max_gb'] <= 1e-7:
                classes.add('T_budget_at_enforced_minimum')
            if nnz > load:
                classes.add('T_several_load_chunks')
            if sub_nnz > fill:
                classes.add('T_several_fill_blocks')
    classes.add('T_nnz_0' if nnz == 0 else 'T_nnz_1' if nnz == 1 else 'T_nnz_gt_100' if nnz > 100 else 'T_nnz_2_to_100')
    if nnz > 65535:
        classes.add('T_nnz_gt_65535')
    if nnz == n_major * n_minor:
        classes.add('T_fully_dense')
    if nnz and (P.sum(axis=1) == 0).any():
        classes.add('T_empty_major_slice')
    if nnz and (P.sum(axis=0) == 0).any():
        classes.add('T_empty_minor_index')
    if m.get('explicit_zeros') and nnz:
        classes.add('T_stored_zero_values')
    classes.add('T_enumerated' if 'plan' in spec else 'T_generated')
    return Case(nontrivial, sorted(classes),
                info={'transpositions': len(variants), 'variants_excluded_known_regions': n_planned - len(variants)})


# ------------------------------------------------------------------ file-level operations
def _frames(f):
    n, gk = len(f['cells']), len(f['genes'])
    if f.get('with_cols'):
        return g._frame_cols(n, 'o'), g._frame_cols(gk, 'v')
    return None, None


def write_source(path, f, alt=None):
    """alt = (matrix, encoding): a second matrix of the same shape, stored in the location the main one does not use
    (layers/alt when the main matrix is X, X when the main matrix is a layer)"""
    x = _x_of(f)
    oc, vc = _frames(f)
    rechunk = None
    if f['layout'] == 'small_chunks':
        rechunk = [f['chunk'], f['chunk']] if f['enc'] == 'dense' else int(f['chunk'])
    kw = {}
    if alt is not None:
        am = materialize.to_encoding(alt[0], alt[1])
        if f['layer'] is None:
            kw['extra_layers'] = {'alt': am}
        else:
            kw['x_placeholder'] = am
    with quiet():
        materialize.write_h5ad(path, x, f['cells'], f['genes'], enc=f['enc'], layer=f['layer'],
                               obs_cols=oc, var_cols=vc, rechunk=rechunk, **kw)
    if f['layout'] == 'contiguous':
        _make_contiguous(path, 'X' if f['layer'] is None else f'layers/{f["layer"]}')
    return x


def _make_contiguous(path, key):
    """rewrite the matrix element without HDF5 chunking (as h5py writes arrays by default, and as several
    writers of this package do for the pointer array)"""
    with h5py.File(path, 'a') as f:
        obj = f[key]
        names = [None] if isinstance(obj, h5py.Dataset) else ['data', 'indices', 'indptr']
        for name in names:
            full = key if name is None else f'{key}/{name}'
            arr = f[full][()]
            attrs = dict(f[full].attrs)
            del f[full]
            dset = f.create_dataset(full, data=arr)
            for k, v in attrs.items():
                dset.attrs[k] = v


def _frame_view(df):
    return {'index': [str(i) for i in df.index],
            'columns': {str(c): [str(v) for v in df[c].tolist()] for c in df.columns}}


def _expected_frame(index, cols, take=None):
    idx = list(index)
    cols = {k: list(v) for k, v in (cols or {}).items()}
    if take is not None:
        idx = [idx[i] for i in take]
        cols = {k: [v[i] for i in take] for k, v in cols.items()}
    return {'index': [str(i) for i in idx], 'columns': {k: [str(x) for x in v] for k, v in cols.items()}}


def read_matrix(path, key='X'):
    """-> (encoding, dense float64/own dtype array, raw dict) read with h5py only"""
    with h5py.File(path, 'r') as f:
        if key not in f:
            raise Violation('result_without_matrix', {'key': key})
        obj = f[key]
        attrs = {k: obj.attrs[k] for k in obj.attrs}
        enc = attrs.get('encoding-type')
        if isinstance(enc, bytes):
            enc = enc.decode()
        if isinstance(obj, h5py.Dataset):
            return enc, obj[()], {'attrs': attrs}
        raw = {name: obj[name][()] for name in ('data', 'indices', 'indptr') if name in obj}
        raw['attrs'] = attrs
        return enc, None, raw


def check_result_file(path, want_x, want_enc, want_obs, want_var, ctx):
    """the result file holds want_x in the encoding want_enc, is structurally valid, and carries obs/var"""
    import anndata
    import scipy.sparse as sp
    enc, dense, raw = read_matrix(path)
    if enc != want_enc:
        raise Violation('result_encoding', dict(ctx, got=str(enc), want=want_enc))
    n_rows, n_cols = want_x.shape
    if enc == 'array':
        if dense.shape != want_x.shape or not np.array_equal(dense, want_x):
            raise Violation('matrix_equal', dict(ctx, got=np.asarray(dense).tolist()[:8], want=want_x.tolist()[:8]))
    else:
        for name in ('data', 'indices', 'indptr'):
            if name not in raw:
                raise Violation('missing_dataset', dict(ctx, name=name))
        shape = raw['attrs'].get('shape')
        if shape is None or [int(s) for s in shape] != [n_rows, n_cols]:
            raise Violation('shape_attribute', dict(ctx, got=None if shape is None else [int(s) for s in shape],
                                                    want=[n_rows, n_cols]))
        n_slices, n_other = (n_rows, n_cols) if enc == 'csr_matrix' else (n_cols, n_rows)
        prob = g.structure_problem(raw['indptr'], raw['indices'], raw['data'], n_slices, n_other)
        if prob is not None:
            raise Violation(prob[0], dict(ctx, **prob[1]))
        got = g.densify(raw['indptr'], raw['indices'], raw['data'], n_slices, n_other)
        if enc == 'csc_matrix':
            got = got.T
        if not np.array_equal(got, want_x.astype(got.dtype)):
            raise Violation('matrix_equal', dict(ctx, got=got.tolist()[:8], want=want_x.tolist()[:8]))
    # the file as a whole is a readable h5ad and carries obs / var
    try:
        with quiet():
            a = anndata.read_h5ad(path)
            ax = a.X.toarray() if sp.issparse(a.X) else np.asarray(a.X)
    except Exception as e:
        raise Violation('result_unreadable', dict(ctx, error=_err(e)))
    if ax.shape != want_x.shape or not np.array_equal(ax, want_x.astype(ax.dtype)):
        raise Violation('matrix_equal_as_read_by_anndata', dict(ctx, got=ax.tolist()[:8], want=want_x.tolist()[:8]))
    if _frame_view(a.obs) != want_obs:
        raise Violation('obs_carried_over', dict(ctx, got=_frame_view(a.obs), want=want_obs))
    if _frame_view(a.var) != want_var:
        raise Violation('var_carried_over', dict(ctx, got=_frame_view(a.var), want=want_var))


def _h5_snapshot(path):
    snap = {}

    def visit(name, obj):
        attrs = {k: obj.attrs[k] for k in obj.attrs}
        if isinstance(obj, h5py.Dataset):
            snap[name] = ('dataset', obj.shape, str(obj.dtype), obj[()], attrs)
        else:
            snap[name] = ('group', None, None, None, attrs)
    with h5py.File(path, 'r') as f:
        f.visititems(visit)
    return snap


def _same_value(a, b):
    a, b = np.asarray(a), np.asarray(b)
    if a.shape != b.shape:
        return False
    if a.dtype.kind in 'OSU' or b.dtype.kind in 'OSU':
        return a.tolist() == b.tolist()
    return bool(np.array_equal(a, b))


def _compare_trees(src, dst, excluded_datasets, excluded_groups, ctx):
    want = {}
    for name, e in src.items():
        parts = name.split('/')
        under = any('/'.join(parts[:i]) in excluded_groups and src['/'.join(parts[:i])][0] == 'group'
                    for i in range(1, len(parts) + 1))
        if under:
            continue
        if e[0] == 'dataset' and name in excluded_datasets:
            continue
        want[name] = e
    missing = sorted(set(want) - set(dst))
    extra = sorted(set(dst) - set(want))
    if missing:
        raise Violation('copy_misses_element', dict(ctx, missing=missing))
    if extra:
        raise Violation('copy_has_excluded_or_extra_element', dict(ctx, extra=extra))
    for name, e in want.items():
        d = dst[name]
        if d[0] != e[0]:
            raise Violation('copy_element_kind', dict(ctx, name=name))
        if e[0] == 'dataset':
            if tuple(d[1]) != tuple(e[1]) or d[2] != e[2]:
                raise Violation('copy_shape_dtype', dict(ctx, name=name, got=[list(d[1]), d[2]], want=[list(e[1]), e[2]]))
            if not _same_value(d[3], e[3]):
                raise Violation('copy_values', dict(ctx, name=name, got=np.asarray(d[3]).tolist(),
                                                    want=np.asarray(e[3]).tolist()))
        if set(d[4]) != set(e[4]) or any(not _same_value(d[4][k], e[4][k]) for k in e[4]):
            raise Violation('copy_attributes', dict(ctx, name=name, got=sorted(d[4]), want=sorted(e[4])))


def _write_tree(path, tree):
    with h5py.File(path, 'w') as f:
        for e in tree:
            rng = np.random.default_rng(e['seed'])
            if e['kind'] == 'str':
                d = f.create_dataset(e['path'], data=f'text_{e["seed"]}_é'.encode('utf-8'))
            elif e['kind'] == 'scalar':
                d = f.create_dataset(e['path'], data=float(rng.random()))
            elif e['kind'] == 'empty_chunked':
                d = f.create_dataset(e['path'], shape=(0,), maxshape=(None,), chunks=(4,), dtype='float64')
            else:
                dt = np.dtype(e['dtype'])
                arr = rng.random(e['shape']) if dt.kind == 'f' else rng.integers(0, 200, e['shape'])
                kw = {}
                if e['layout'] != 'contiguous':
                    kw['chunks'] = tuple(e['chunks'])
                if e['layout'] == 'gzip':
                    kw.update(compression='gzip', compression_opts=4)
                d = f.create_dataset(e['path'], data=arr.astype(dt), **kw)
            for k, v in (e.get('attrs') or {}).items():
                d.attrs[k] = v
        if tree and any('/' in e['path'] for e in tree):
            top = [e['path'].split('/')[0] for e in tree if '/' in e['path']][0]
            f[top].attrs['group_note'] = 'kept'


def check_fileop(spec):
    from cell_type_mapper.utils import anndata_utils as au
    from cell_type_mapper.utils.h5_utils import copy_h5_excluding_data

    op = spec['op']
    classes = {'F_' + op}
    nontrivial = False
    ctx = {'op': op}
    with sandbox() as d:
        dst = d / 'result.h5ad'
        tmp = d / 'scratch'
        tmp.mkdir()
        if op in ('pivot', 'shuffle', 'subset', 'layer2x', 'h5copy'):
            f = spec['src']
            src = d / 'source.h5ad'
            x = write_source(src, f)
            oc, vc = _frames(f)
            nnz = int((x != 0).sum())
            classes.add('F_nnz_0' if nnz == 0 else 'F_nnz_1' if nnz == 1 else 'F_nnz_ge_2')
            classes.add('F_layout_' + f['layout'])
            ctx.update(shape=list(x.shape), nnz=nnz, enc=f['enc'], layer=f['layer'], layout=f['layout'])
        elif op == 'h5copy_tree':
            src = d / 'source.h5'
            _write_tree(src, spec['tree'])
        elif op == 'amalgamate':
            src_rows, parts = [], []
            rs = resolved_sources(spec)
            for k, s in enumerate(spec['sources']):
                if 'file' in s:
                    alt = (np.array(s['alt_x'], dtype=np.dtype(s['file']['dtype'])), s['alt_enc']) if 'alt_x' in s else None
                    write_source(d / f'source_{s.get("id", k)}.h5ad', s['file'], alt=alt)
            for s in rs:
                parts.append(s['x'][s['rows']])
                src_rows.append({'path': str(d / f'source_{s["host"]}.h5ad'), 'rows': list(s['rows']), 'layer': s['layer']})
            want_x = np.vstack(parts)
            genes = rs[0]['file']['genes']
            new_cells = [f'n{i}' for i in range(want_x.shape[0])]
            ocols = {'origin': [k for k, s in enumerate(rs) for _ in s['rows']]}
            vcols = g._frame_cols(len(genes), 'v')
            dst_obs = pd.DataFrame(ocols, index=pd.Index(new_cells))
            dst_var = pd.DataFrame(vcols, index=pd.Index(genes))
        else:
            raise ValueError(op)
        try:
            with quiet():
                if op == 'pivot':
                    au.pivot_csr_h5ad(src_path=src, dst_path=dst, tmp_dir=str(tmp), n_processors=spec['n_proc'],
                                      max_gb=spec['max_gb'], compression=spec['compression'])
                elif op == 'shuffle':
                    au.shuffle_csr_h5ad_rows(src_path=src, dst_path=dst, new_row_order=list(spec['order']),
                                             compression=spec['compression'])
                elif op == 'subset':
                    au.subset_csc_h5ad_columns(src_path=src, dst_path=dst, chosen_columns=list(spec['columns']),
                                               compression=spec['compression'])
                elif op == 'layer2x':
                    au.copy_layer_to_x(original_h5ad_path=src, new_h5ad_path=dst,
                                       layer='X' if f['layer'] is None else f['layer'])
                elif op == 'h5copy':
                    ex = {'none': None, 'obs': ['obs'], 'var': ['var'], 'X': ['X'], 'layers': ['layers']}[spec['exclude']]
                    copy_h5_excluding_data(src_path=src, dst_path=dst, tmp_dir=str(tmp), excluded_groups=ex,
                                           excluded_datasets=ex, max_elements=spec['max_elements'])
                elif op == 'h5copy_tree':
                    copy_h5_excluding_data(src_path=src, dst_path=dst, tmp_dir=str(tmp),
                                           excluded_groups=list(spec['excluded_groups']) or None,
                                           excluded_datasets=list(spec['excluded_datasets']) or None,
                                           max_elements=spec['max_elements'])
                else:
                    au.amalgamate_h5ad(src_rows=src_rows, dst_path=dst, dst_obs=dst_obs, dst_var=dst_var,
                                       dst_sparse=spec['dst_sparse'], tmp_dir=str(tmp), compression=spec['compression'])
        except Exception as e:
            raise Violation('raised', dict(ctx, error=_err(e)))

        if op == 'pivot':
            check_result_file(dst, x, 'csc_matrix', _expected_frame(f['cells'], oc), _expected_frame(f['genes'], vc), ctx)
            nontrivial = nnz >= 2 and len({int(i) for i in np.nonzero(x)[0]}) >= 2 and len({int(j) for j in np.nonzero(x)[1]}) >= 2
            classes.add(f'F_pivot_{spec["n_proc"]}w')
        elif op == 'shuffle':
            order = list(spec['order'])
            check_result_file(dst, x[order], 'csr_matrix', _expected_frame(f['cells'], oc, order),
                              _expected_frame(f['genes'], vc), ctx)
            nontrivial = nnz >= 2 and order != sorted(order) and not np.array_equal(x[order], x)
            if order == sorted(order):
                classes.add('F_shuffle_identity')
        elif op == 'subset':
            cols = sorted(spec['columns'])
            check_result_file(dst, x[:, cols], 'csc_matrix', _expected_frame(f['cells'], oc),
                              _expected_frame(f['genes'], vc, cols), ctx)
            nontrivial = nnz >= 2 and len(cols) < x.shape[1] and int((x[:, cols] != 0).sum()) >= 1
            if list(spec['columns']) != cols:
                classes.add('F_subset_unordered_request')
            if int((x[:, cols] != 0).sum()) == 0:
                classes.add('F_subset_without_entry')
        elif op == 'layer2x':
            want_enc = {'csr': 'csr_matrix', 'csc': 'csc_matrix', 'dense': 'array'}[f['enc']]
            check_result_file(dst, x, want_enc, _expected_frame(f['cells'], oc), _expected_frame(f['genes'], vc), ctx)
            classes.add('F_layer2x_' + f['enc'] + ('_from_layer' if f['layer'] else '_from_X'))
            n_stored = nnz if f['enc'] != 'dense' else x.shape[0]
            nontrivial = nnz >= 2 and (f['layout'] != 'small_chunks' or n_stored > f['chunk'])
            if f['layout'] == 'small_chunks' and n_stored > f['chunk']:
                classes.add('F_layer2x_several_chunks')
        elif op == 'amalgamate':
            want_enc = 'csr_matrix' if spec['dst_sparse'] else 'array'
            ctx.update(sources=[{'enc': s['file']['enc'], 'layer': s['layer'], 'rows': s['rows'], 'file': s['host'],
                                 'shape': list(s['x'].shape)} for s in rs],
                       dst_sparse=spec['dst_sparse'])
            check_result_file(dst, want_x, want_enc, _expected_frame(new_cells, ocols), _expected_frame(genes, vcols), ctx)
            tot = int((want_x != 0).sum())
            classes.add('F_amalgamate_sparse_target' if spec['dst_sparse'] else 'F_amalgamate_dense_target')
            classes.add(f'F_amalgamate_{len(spec["sources"])}_sources')
            classes.add('F_nnz_0' if tot == 0 else 'F_nnz_1' if tot == 1 else 'F_nnz_ge_2')
            for s in rs:
                classes.add('F_amalgamate_src_' + s['file']['enc'])
                if list(s['rows']) != sorted(s['rows']):
                    classes.add('F_amalgamate_unordered_rows')
                if s['reused']:
                    classes.add('F_amalgamate_file_used_again_other_matrix' if s['other'] else 'F_amalgamate_file_used_again_same_matrix')
            if any(int((p != 0).sum()) == 0 for p in parts) and tot > 0:
                classes.add('F_amalgamate_selection_without_entry')
            nontrivial = tot >= 2 and (len(rs) >= 2 or list(rs[0]["rows"]) != list(range(want_x.shape[0])))
        else:
            if op == 'h5copy':
                ex = {'none': [], 'obs': ['obs'], 'var': ['var'], 'X': ['X'], 'layers': ['layers']}[spec['exclude']]
                exd, exg = ex, ex
                classes.add('F_h5copy_exclude_' + spec['exclude'])
            else:
                exd, exg = list(spec['excluded_datasets']), list(spec['excluded_groups'])
                if exd or exg:
                    classes.add('F_h5copy_with_exclusions')
            s_snap = _h5_snapshot(src)
            d_snap = _h5_snapshot(dst)
            _compare_trees(s_snap, d_snap, set(exd), set(exg), dict(ctx, max_elements=spec['max_elements'],
                                                                    excluded=[exd, exg]))
            # a chunked dataset whose copy needs several hyperslabs
            with h5py.File(src, 'r') as fh:
                def several(name, obj):
                    if isinstance(obj, h5py.Dataset) and obj.chunks is not None and name in d_snap \
                            and obj.size > spec['max_elements']:
                        return True
                nontrivial = bool(fh.visititems(several))
            if nontrivial:
                classes.add('F_h5copy_several_hyperslabs')
            if op == 'h5copy_tree' and any(len(e.get('shape', [])) >= 2 and e.get('layout') != 'contiguous'
                                           for e in spec['tree']):
                classes.add('F_h5copy_multi_dimensional_chunked')
    return Case(nontrivial, sorted(classes), info={'file_operations': 1})


# ------------------------------------------------------------------ stacking CSR piece files (amalgamate_csr_to_x)
def _fit_dtype(name, top):
    order = ['int8', 'uint8', 'int16', 'uint16', 'int32', 'uint32', 'int64']
    for n in order[order.index(name):]:
        if top <= np.iinfo(np.dtype(n)).max:
            return np.dtype(n)
    return np.dtype('int64')


def check_stack_pieces(spec):
    import scipy.sparse as sp
    import anndata
    import pandas as pd
    from cell_type_mapper.utils.anndata_utils import amalgamate_csr_to_x
    nr, nc = spec['shape']
    rng = np.random.default_rng(spec['seed'])
    dt = np.dtype(spec['dtype'])
    vals = rng.integers(1, 100, (nr, nc))
    x = (vals * (rng.random((nr, nc)) < spec['density'])).astype(dt)
    bounds = [0] + list(spec['cuts']) + [nr]
    ctx = {'op': 'stack_pieces', 'shape': [nr, nc], 'cuts': spec['cuts'], 'seed': spec['seed'], 'density': spec['density']}
    classes = {'S_stack_pieces'}
    used = []
    with sandbox() as d:
        paths = []
        for i, (a, b) in enumerate(zip(bounds[:-1], bounds[1:])):
            m = sp.csr_matrix(x[a:b])
            m.sort_indices()
            idt = _fit_dtype(spec['idx_dtypes'][i], max(int(m.nnz), nc))
            used.append(idt.name)
            pth = f'{d}/piece_{i}.h5'
            with h5py.File(pth, 'w') as f:
                f.create_dataset('data', data=m.data.astype(dt))
                f.create_dataset('indices', data=m.indices.astype(idt))
                f.create_dataset('indptr', data=m.indptr.astype(idt))
            paths.append(pth)
        dst = f'{d}/stacked.h5ad'
        anndata.AnnData(obs=pd.DataFrame(index=[f'c{i}' for i in range(nr)]),
                        var=pd.DataFrame(index=[f'g{i}' for i in range(nc)])).write_h5ad(dst)
        ctx['index_dtypes'] = used
        try:
            with quiet():
                amalgamate_csr_to_x(src_path_list=paths, dst_path=dst, final_shape=(nr, nc), dst_grp='X',
                                    compression=spec['compression'])
        except Exception as e:
            raise Violation('raised', dict(ctx, error=_err(e)))
        with h5py.File(dst, 'r') as f:
            indptr, indices, data = f['X/indptr'][()], f['X/indices'][()], f['X/data'][()]
            enc = f['X'].attrs.get('encoding-type')
            shape = [int(v) for v in f['X'].attrs['shape']]
        if enc != 'csr_matrix' or shape != [nr, nc]:
            raise Violation('declared_encoding', dict(ctx, encoding=str(enc), declared_shape=shape))
        prob = g.structure_problem(indptr, indices, data, nr, nc)
        if prob is not None:
            raise Violation(prob[0], dict(ctx, **prob[1]))
        got = g.densify(indptr, indices, data, nr, nc)
        if not np.array_equal(got, x.astype(got.dtype)):
            bad = np.argwhere(got != x.astype(got.dtype))[:5].tolist()
            raise Violation('matrix_equal', dict(ctx, first_differences=bad))
        with quiet():
            back = anndata.read_h5ad(dst)
        bx = back.X.toarray() if hasattr(back.X, 'toarray') else np.asarray(back.X)
        if not np.array_equal(bx, x.astype(bx.dtype)):
            raise Violation('matrix_equal_via_anndata', ctx)
    nnz = int((x != 0).sum())
    narrow = [u for u in used if np.dtype(u).itemsize < 4]
    if narrow:
        classes.add('S_stack_narrow_index_piece')
    if narrow and nnz > min(np.iinfo(np.dtype(u)).max for u in narrow):
        classes.add('S_stack_total_exceeds_narrow_index_type')
    classes.add(f'S_stack_{len(used) if len(used) < 3 else "3+"}_pieces')
    classes.add('S_nnz_0' if nnz == 0 else 'S_nnz_ge_1')
    return Case(len(used) >= 2 and nnz >= 2, sorted(classes), info={'in_memory_operations': 1})


# ------------------------------------------------------------------ in-memory pointer arithmetic (utils/sparse_utils.py)
def check_sparse_utils(spec):
    import scipy.sparse as sp
    from cell_type_mapper.utils import sparse_utils as su
    op = spec['op']
    if op == 'stack_pieces':
        return check_stack_pieces(spec)
    x = np.array(spec['x'], dtype=np.dtype(spec['dtype']))
    nr, nc = x.shape
    ctx = {'op': op, 'shape': [nr, nc]}
    classes = {'S_' + op}
    nnz = int((x != 0).sum())
    if op == 'merge_csr':
        bounds = [0] + list(spec['cuts']) + [nr]
        pieces = [sp.csr_matrix(x[a:b]) for a, b in zip(bounds[:-1], bounds[1:])]
        try:
            with quiet():
                data, indices, indptr = su.merge_csr(data_list=[p.data for p in pieces],
                                                     indices_list=[p.indices for p in pieces],
                                                     indptr_list=[p.indptr for p in pieces])
        except Exception as e:
            raise Violation('raised', dict(ctx, cuts=spec['cuts'], error=_err(e)))
        prob = g.structure_problem(indptr, indices, data, nr, nc)
        if prob is not None:
            raise Violation(prob[0], dict(ctx, cuts=spec['cuts'], **prob[1]))
        got = g.densify(indptr, indices, data, nr, nc)
        if not np.array_equal(got, x.astype(got.dtype)):
            raise Violation('matrix_equal', dict(ctx, cuts=spec['cuts'], got=got.tolist(), want=x.tolist()))
        classes.add(f'S_merge_{len(pieces)}_pieces')
        if any(p.nnz == 0 for p in pieces) and nnz:
            classes.add('S_merge_piece_without_entry')
        nontrivial = len(pieces) >= 2 and sum(1 for p in pieces if p.nnz) >= 2
    else:
        r0, r1 = spec['rows']
        c0, c1 = spec['cols']
        ctx.update(rows=[r0, r1], cols=[c0, c1])
        try:
            with quiet():
                if op == 'load_csr_chunk':
                    m = sp.csr_matrix(x)
                    got = su.load_csr_chunk(row_spec=(r0, r1), col_spec=(c0, c1), data=m.data, indices=m.indices, indptr=m.indptr)
                    want = x[r0:r1, c0:c1]
                elif op == 'load_csr':
                    m = sp.csr_matrix(x)
                    got = su.load_csr(row_spec=(r0, r1), n_cols=nc, data=m.data, indices=m.indices, indptr=m.indptr)
                    want = x[r0:r1, :]
                else:
                    m = sp.csc_matrix(x)
                    got = su.load_csc(col_spec=(c0, c1), n_rows=nr, data=m.data, indices=m.indices, indptr=m.indptr)
                    want = x[:, c0:c1]
        except Exception as e:
            raise Violation('raised', dict(ctx, error=_err(e)))
        got = np.asarray(got)
        if got.shape != want.shape or not np.array_equal(got, want):
            raise Violation('matrix_equal', dict(ctx, got=got.tolist(), want=want.tolist(), x=x.tolist()))
        if int((want != 0).sum()) == 0 and nnz:
            classes.add('S_block_without_entry')
        nontrivial = int((want != 0).sum()) >= 2 and want.size < x.size
    classes.add('S_nnz_0' if nnz == 0 else 'S_nnz_ge_1')
    return Case(nontrivial, sorted(classes), info={'in_memory_operations': 1})
