"""
Hypothesis strategies producing JSON-serialisable case specs.

Structure (tree shape, names, marker table, encodings, configuration, which
degenerate family) is drawn by Hypothesis so it shrinks; bulk numeric arrays are
expanded deterministically from a drawn integer seed by pbt.materialize.expand_*
(a pure function of the spec), and are written out explicitly in replay files.
"""
import hypothesis.strategies as st

from pbt import treemodel

LEVEL_NAMES = ['class', 'subclass', 'supertype', 'cluster', 'subcluster']
PREFIX = {'class': 'cs', 'subclass': 'sc', 'supertype': 'st', 'cluster': 'cl', 'subcluster': 'sb',
          'level': 'la', 'level_1': 'lb', 'level_12': 'lc', 'level_123': 'ld', 'level_1234': 'le'}
# level names as they appear as obs columns of published reference files
LEVEL_NAMES_LABEL = ['class_label', 'subclass_label', 'supertype_name', 'cluster_label', 'cluster_alias']
PREFIX.update({'class_label': 'cs', 'subclass_label': 'sc', 'supertype_name': 'st', 'cluster_label': 'cl', 'cluster_alias': 'sb'})
# level names each of which is a string prefix of the next
LEVEL_NAMES_NESTED = ['level', 'level_1', 'level_12', 'level_123', 'level_1234']

# names that need CSV quoting / look numeric / unicode
ODD_CHARS = [',', '"', "'", ' ', ';', '=', '(', ')', '[', ']', 'é', 'β', '/', '#', ':']


@st.composite
def node_namer(draw, allow_odd=True):
    scheme = draw(st.sampled_from(['plain', 'plain', 'scrambled', 'numeric', 'odd', 'odd', 'shared', 'padded'] if allow_odd
                                  else ['plain', 'scrambled', 'numeric', 'shared']))
    salt = draw(st.integers(0, 96))
    odd = draw(st.sampled_from(ODD_CHARS)) if scheme == 'odd' else ''
    return {'scheme': scheme, 'salt': salt, 'odd': odd}


def make_name(namer, level_idx, idx):
    s = namer['scheme']
    pre = PREFIX[namer['levels'][level_idx]] if 'levels' in namer else f'L{level_idx}'
    if s == 'plain':
        return f'{pre}{idx:02d}'
    if s == 'shared':
        # the same names occur at every level (e.g. a subclass and its only cluster share a name)
        return f'n{(idx * 37 + namer["salt"]) % 9973:04d}'
    if s == 'scrambled':
        return f'{pre}{(idx * 37 + namer["salt"]) % 9973:04d}'
    if s == 'numeric':
        # numeric looking; unique per level; '10' < '2' alphabetically
        return str((idx * 37 + namer['salt']) % 9973 + 10000 * level_idx)
    if s == 'odd':
        return f'{pre}{namer["odd"]}{(idx * 37 + namer["salt"]) % 9973}'
    if s == 'padded':
        # labels with leading / trailing blanks; neighbours differ only by such padding ('L07', 'L07 ', ' L07')
        base = f'{pre}{((idx // 3) * 37 + namer["salt"]) % 9973:04d}'
        return [base, base + ' ', ' ' + base][idx % 3]
    raise ValueError(s)


@st.composite
def trees(draw, max_levels=4, max_leaves=12, min_levels=1, allow_odd=True,
          min_top=1, mappers=True, min_leaves=1):
    """random uniform-depth taxonomy built by construction:
    choose level widths (non-decreasing), then a surjective parent assignment"""
    n_levels = draw(st.integers(min_levels, max_levels))
    bias = draw(st.sampled_from(['any', 'any', 'chain', 'wide_root', 'single_top']))
    widths = []
    lo = min_top
    for i in range(n_levels):
        if i == n_levels - 1:
            lo = max(lo, min_leaves)
            w = draw(st.integers(lo, max(lo, max_leaves)))
        elif bias == 'chain':
            w = draw(st.integers(lo, lo + 1))
        elif bias == 'wide_root' and i == 0:
            w = draw(st.integers(max(lo, 2), max(lo, min(6, max_leaves))))
        elif bias == 'single_top' and i == 0:
            w = max(1, min_top)
        else:
            w = draw(st.integers(lo, max(lo, min(lo + 3, max_leaves))))
        w = min(w, max(max_leaves, min_leaves))
        w = max(w, lo)
        widths.append(w)
        lo = w
    namer = draw(node_namer(allow_odd=allow_odd))
    levels = LEVEL_NAMES[-n_levels:] if draw(st.booleans()) else LEVEL_NAMES[:n_levels]
    if n_levels <= len(LEVEL_NAMES_NESTED) and draw(st.integers(0, 5)) == 0:
        levels = LEVEL_NAMES_NESTED[:n_levels] if draw(st.booleans()) else LEVEL_NAMES_NESTED[:n_levels][::-1]
    elif draw(st.integers(0, 5)) == 0:
        levels = LEVEL_NAMES_LABEL[-n_levels:] if draw(st.booleans()) else LEVEL_NAMES_LABEL[:n_levels]
    namer = dict(namer, levels=list(levels))
    data = {'hierarchy': list(levels)}
    names = [[make_name(namer, li, i) for i in range(w)] for li, w in enumerate(widths)]
    for li in range(n_levels):
        data[levels[li]] = {nm: [] for nm in names[li]}
    for li in range(1, n_levels):
        wp, wc = widths[li - 1], widths[li]
        # surjective: first wp children get distinct parents, others random
        extra = draw(st.lists(st.integers(0, wp - 1), min_size=wc - wp, max_size=wc - wp))
        assign = list(range(wp)) + extra
        perm = draw(st.permutations(list(range(wc))))
        for ci, pi in zip(perm, assign):
            data[levels[li - 1]][names[li - 1][pi]].append(names[li][ci])
    if draw(st.booleans()):
        # shuffle the key order of each level (dict order != alphabetical)
        for li in range(n_levels):
            keys = draw(st.permutations(list(data[levels[li]].keys())))
            data[levels[li]] = {k: data[levels[li]][k] for k in keys}
    if mappers and (mappers == 'often' and draw(st.integers(0, 2)) > 0 or draw(st.integers(0, 3)) == 0):
        nm = {}
        for li in range(n_levels):
            if draw(st.booleans()):
                nm[levels[li]] = {}
                for n in data[levels[li]]:
                    k = draw(st.integers(0, 3))
                    if k == 0:
                        continue
                    e = {}
                    if k in (1, 3):
                        e['name'] = f'N {n}' + (namer['odd'] or '')
                    if k in (2, 3):
                        e['alias'] = str(draw(st.integers(0, 9999)))
                    nm[levels[li]][n] = e
        data['name_mapper'] = nm
        if draw(st.booleans()):
            data['hierarchy_mapper'] = {lv: f'{lv}_readable' for lv in levels if draw(st.booleans())}
    return data


@st.composite
def shuffled(draw, items):
    """a permutation of items: Hypothesis' own st.permutations (shrinks towards the identity and rarely
    strays far from it) half of the time, a uniform shuffle driven by a drawn integer otherwise"""
    items = list(items)
    if draw(st.booleans()):
        return list(draw(st.permutations(items)))
    import random
    r = random.Random(draw(st.integers(0, 2**31 - 1)))
    r.shuffle(items)
    return items


def gene_names(n, prefix='g'):
    return [f'{prefix}{i}' for i in range(n)]


@st.composite
def marker_tables(draw, tree_data, ref_genes, root_required=True, density=None, pooled=False):
    """per parent a random subset of reference genes; parents missing, lists
    empty, duplicates inside a list. Returns dict key -> list"""
    t = treemodel.Tree(tree_data)
    dens = density if density is not None else draw(st.sampled_from([0.2, 0.5, 0.8]))
    n = len(ref_genes)
    out = {}

    def pick(lo, hi):
        lo = min(lo, n)
        hi = max(lo, min(hi, n))
        k = draw(st.integers(lo, hi))
        idx = draw(st.lists(st.integers(0, n - 1), min_size=k, max_size=k, unique=True))
        lst = [ref_genes[i] for i in idx]
        if lst and draw(st.integers(0, 5)) == 0:
            lst.append(lst[0])  # a duplicate inside a list
        return lst
    big = (6, n) if dens >= 0.3 else (4, max(4, n // 2))
    out['None'] = pick(*big) if draw(st.integers(0, 4)) else pick(1 if root_required else 0, 2)
    if pooled:
        # short, heavily overlapping lists along every path: all non-root lists are drawn from a small
        # pool of genes, so that the fallback rule has to walk several ancestors and lists share genes
        pool_idx = draw(st.lists(st.integers(0, n - 1), min_size=3, max_size=min(6, n), unique=True))
        pool = [ref_genes[i] for i in pool_idx]
        if draw(st.booleans()):
            out['None'] = pick(*big) if draw(st.booleans()) else list(draw(st.permutations(pool)))[:draw(st.integers(1, len(pool)))] + [out['None'][0]]
        for p in t.all_parents()[1:]:
            mode = draw(st.sampled_from(['short', 'short', 'short', 'missing', 'empty', 'list']))
            key = f'{p[0]}/{p[1]}'
            if mode == 'missing':
                continue
            if mode == 'empty':
                out[key] = []
            elif mode == 'list':
                out[key] = pick(*big)
            else:
                k = draw(st.integers(1, min(3, len(pool))))
                out[key] = list(draw(st.permutations(pool)))[:k]
        return out
    for p in t.all_parents()[1:]:
        mode = draw(st.sampled_from(['list', 'list', 'list', 'list', 'short', 'missing', 'empty']))
        if mode == 'missing':
            continue
        key = f'{p[0]}/{p[1]}'
        if mode == 'empty':
            out[key] = []
        elif mode == 'short':
            out[key] = pick(1, 2)
        else:
            out[key] = pick(*big)
    return out


DTYPES = ['float32', 'float64', 'int32', 'int64', 'uint8', 'uint16', 'uint32']


@st.composite
def query_specs(draw, ref_genes, must_include=(), max_cells=16, dtypes=DTYPES,
                encs=('csr', 'csc', 'dense'), extra_genes=True, min_cells=1,
                max_count=60):
    """query matrix description; values expanded from 'seed'"""
    n_cells = draw(st.integers(min_cells, max_cells))
    if max_cells >= 6 and draw(st.integers(0, 7)) == 0:
        # enough cells for chunk boundaries with different digit counts (0_5, 5_10, 10_15 ...)
        n_cells = draw(st.integers(11, 36))
    keep = [g for g in ref_genes if g in must_include or draw(st.integers(0, 9)) < 9]
    extra = [f'x{i}' for i in range(draw(st.integers(0, 3)))] if extra_genes else []
    if extra_genes and draw(st.integers(0, 11)) == 0:
        # a query much wider than the reference (more columns than a one-byte index holds)
        extra = [f'x{i}' for i in range(draw(st.integers(240, 300)))]
    genes = draw(shuffled(keep + extra))
    id_scheme = draw(st.sampled_from(['c', 'c', 'num', 'uni']))
    if id_scheme == 'c':
        cells = [f'c{i}' for i in range(n_cells)]
    elif id_scheme == 'num':
        base = draw(st.integers(0, 1000))
        cells = [str(base + 3 * i) for i in range(n_cells)]
    else:
        cells = [f'célula_{i}β' for i in range(n_cells)]
    if draw(st.booleans()):
        cells = draw(st.permutations(cells))
    zero_rows = draw(st.lists(st.integers(0, n_cells - 1), max_size=2, unique=True)) \
        if draw(st.integers(0, 3)) == 0 else []
    idx_dtype = draw(st.sampled_from([None, None, None, None, 'int64', 'uint32', 'uint16']))
    return {
        'genes': list(genes), 'cells': list(cells),
        'idx_dtype': idx_dtype,
        'obs_index_name': draw(st.sampled_from([None, None, None, 'cell_label', 'cell_id'])),
        'var_index_name': draw(st.sampled_from([None, None, None, 'gene_identifier', 'gene_symbol'])),
        'seed': draw(st.integers(0, 2**31 - 1)),
        'max_count': max_count,
        'density': draw(st.sampled_from([0.4, 0.8, 0.9, 1.0])),
        'zero_rows': zero_rows,
        'dtype': draw(st.sampled_from(list(dtypes))),
        'enc': draw(st.sampled_from(list(encs))),
    }


@st.composite
def ref_specs(draw, tree_data, n_genes=None, max_genes=24, min_genes=8, family=None):
    t = treemodel.Tree(tree_data)
    leaves = sorted(t.leaves())
    if n_genes is None:
        n_genes = draw(st.integers(min_genes, max_genes))
    genes = draw(shuffled(gene_names(n_genes)))
    rows = draw(shuffled(list(range(len(leaves)))))
    fam = family or draw(st.sampled_from(['generic'] * 6 + ['identical_pair', 'affine_pair', 'constant', 'zero_gene', 'empty_leaf']))
    return {
        'genes': list(genes),
        'leaves': leaves,
        'rows': list(rows),
        'seed': draw(st.integers(0, 2**31 - 1)),
        'family': fam,
        'max_cells': draw(st.sampled_from([1, 3, 9])),
    }


@st.composite
def map_configs(draw, tree_data, n_cells, factor=None, allow_flatten=True, allow_drop=True,
                max_iter=12):
    h = tree_data['hierarchy']
    flatten = draw(st.integers(0, 5)) == 0 if allow_flatten else False
    drop = None
    if allow_drop and not flatten and len(h) > 1 and draw(st.integers(0, 3)) == 0:
        drop = draw(st.sampled_from(h[:-1] + ['no_such_level']))
    lookup = None
    if factor is None:
        factor = draw(st.sampled_from([1.0, 0.9, 0.9, 0.75, 0.75, 0.5, 0.5, 0.33, 0.1]))
        if draw(st.integers(0, 3)) == 0:
            # a bootstrap factor per level ('None' = the root); levels of the stored hierarchy, so that the
            # lookup is also complete for the flattened / level-dropped tree
            fs = [1.0, 0.9, 0.75, 0.5, 0.33]
            lookup = [['None', draw(st.sampled_from(fs))]] + [[lv, draw(st.sampled_from(fs))] for lv in h[:-1]]
    return {
        'flatten': flatten,
        'drop_level': drop,
        'chunk_size': (draw(st.sampled_from([1, 2, 3, 5, 7])) if n_cells >= 11 and draw(st.booleans())
                       else draw(st.integers(1, n_cells + 3))),
        'n_processors': draw(st.sampled_from([1, 1, 2, 3, 4])),
        'n_runners_up': draw(st.integers(0, 4)),
        'bootstrap_iteration': draw(st.sampled_from([i for i in (1, 2, 3, 5, 8, 12, 12, 8, 5, 130, 300)
                                                      if i <= max(1, max_iter if n_cells <= 12 else min(max_iter, 12))])),
        'bootstrap_factor': factor,
        'bootstrap_factor_lookup': lookup,
        'min_markers': draw(st.integers(1, 6)),
        'normalization': 'raw',
        'rng_seed': draw(st.integers(0, 2**31 - 1)),
        'tmp_dir': draw(st.booleans()),
        'max_gb': draw(st.sampled_from([1.0, 1.0, 1e-9, 0.001, 1e-6, 4e-6, 2e-5])),
        'cloud_safe': draw(st.booleans()),
    }


@st.composite
def map_cases(draw, max_levels=4, max_leaves=10, factor=None, allow_flatten=True,
              allow_drop=True, min_top=1, max_cells=12, dtypes=DTYPES, allow_odd=True,
              family=None, tree=None, max_iter=12, encs=('csr', 'csc', 'dense'), mappers=True, min_levels=1, pooled_markers=False):
    tree_data = tree if tree is not None else draw(trees(max_levels=max_levels, max_leaves=max_leaves, min_levels=min_levels,
                                                         allow_odd=allow_odd, min_top=min_top, mappers=mappers))
    ref = draw(ref_specs(tree_data, family=family))
    markers = draw(marker_tables(tree_data, ref['genes'], pooled=bool(pooled_markers) and draw(st.booleans())))
    # at least one root gene is placed in the query (usable at the root)
    root_gene = markers['None'][0]
    query = draw(query_specs(ref['genes'], must_include=(root_gene,), max_cells=max_cells,
                             dtypes=dtypes, encs=encs))
    cfg = draw(map_configs(tree_data, len(query['cells']), factor=factor,
                           allow_flatten=allow_flatten, allow_drop=allow_drop, max_iter=max_iter))
    return {'tree': tree_data, 'ref': ref, 'markers': markers, 'query': query, 'cfg': cfg}


# ---------------------------------------------------------------------------
# deterministic fill for enumerated tree shapes (a pure function of (tree, k))
def derived_case(tree_data, k, flatten=False, drop_level=None, factor=None):
    import random
    r = random.Random(k)
    t = treemodel.Tree(tree_data)
    leaves = sorted(t.leaves())
    ng = r.randint(5, 10)
    genes = gene_names(ng)
    r.shuffle(genes)
    rows = list(range(len(leaves)))
    r.shuffle(rows)
    ref = {'genes': genes, 'leaves': leaves, 'rows': rows, 'seed': k, 'family': 'generic', 'max_cells': 3}
    markers = {'None': r.sample(genes, r.randint(2, ng))}
    for p in t.all_parents()[1:]:
        m = r.random()
        if m < 0.15:
            continue
        markers[f'{p[0]}/{p[1]}'] = [] if m < 0.25 else r.sample(genes, r.randint(1, ng))
    keep = [g for g in genes if g == markers['None'][0] or r.random() < 0.85]
    qg = keep + ['x0']
    r.shuffle(qg)
    n_cells = r.randint(1, 7)
    query = {'genes': qg, 'cells': [f'c{i}' for i in range(n_cells)], 'seed': k + 1,
             'max_count': 60, 'density': 0.8, 'zero_rows': [],
             'dtype': r.choice(['float32', 'int32', 'float64']),
             'enc': r.choice(['csr', 'csc', 'dense'])}
    cfg = {'flatten': flatten, 'drop_level': drop_level,
           'chunk_size': r.randint(1, n_cells + 1), 'n_processors': r.randint(1, 3),
           'n_runners_up': r.randint(0, 3), 'bootstrap_iteration': r.randint(1, 6),
           'bootstrap_factor': factor if factor is not None else r.choice([1.0, 0.9, 0.5]),
           'min_markers': r.randint(1, 4), 'normalization': 'raw', 'rng_seed': k,
           'tmp_dir': True, 'max_gb': 1.0, 'cloud_safe': True}
    return {'tree': tree_data, 'ref': ref, 'markers': markers, 'query': query, 'cfg': cfg}
