import sys
from pbt.core import main
if __name__ == '__main__':
    sys.exit(main())
