"""
The harness' own model of a taxonomy (independent of TaxonomyTree).

A tree spec is the documented dict:
  {'hierarchy': [l0, l1, ... leaf], l0: {node: [children]}, ..., leaf: {leaf: [cells]}}
optionally with 'name_mapper', 'hierarchy_mapper', 'metadata'.
"""
import copy
import itertools
from functools import lru_cache

META_KEYS = ('metadata', 'name_mapper', 'hierarchy_mapper')


class Tree(object):
    def __init__(self, data):
        self.data = data
        self.h = list(data['hierarchy'])
        self.leaf_level = self.h[-1]
        self.c2p = {}
        for pl, cl in zip(self.h[:-1], self.h[1:]):
            for p, cs in data[pl].items():
                for c in cs:
                    self.c2p[(cl, c)] = (pl, p)

    def nodes(self, level):
        return list(self.data[level].keys())

    def children(self, parent):
        """parent is None or (level, node); returns list of child names"""
        if parent is None:
            return list(self.data[self.h[0]].keys())
        return list(self.data[parent[0]][parent[1]])

    def child_level(self, parent):
        if parent is None:
            return self.h[0]
        return self.h[self.h.index(parent[0]) + 1]

    def parent(self, level, node):
        return self.c2p.get((level, node))

    def ancestors(self, level, node):
        """nearest first list of (level, node)"""
        out = []
        cur = (level, node)
        while cur in self.c2p:
            cur = self.c2p[cur]
            out.append(cur)
        return out

    def leaves_under(self, level, node):
        i = self.h.index(level)
        if i == len(self.h) - 1:
            return [node]
        out = []
        for c in self.data[level][node]:
            out += self.leaves_under(self.h[i + 1], c)
        return out

    def leaves(self):
        return list(self.data[self.leaf_level].keys())

    def all_parents(self):
        out = [None]
        for lv in self.h[:-1]:
            for n in self.data[lv]:
                out.append((lv, n))
        return out

    def ancestor_at(self, leaf, level):
        cur = (self.leaf_level, leaf)
        while cur[0] != level:
            cur = self.c2p[cur]
        return cur[1]

    def path_of_leaf(self, leaf):
        """dict level -> node for the root-to-leaf path"""
        out = {self.leaf_level: leaf}
        cur = (self.leaf_level, leaf)
        while cur in self.c2p:
            cur = self.c2p[cur]
            out[cur[0]] = cur[1]
        return out

    def pairs_to_compare(self, parent):
        """set of frozenset({leaf_a, leaf_b}) lying under two different
        children of parent"""
        cl = self.child_level(parent)
        groups = [self.leaves_under(cl, c) for c in self.children(parent)]
        out = set()
        for g0, g1 in itertools.combinations(groups, 2):
            for a in g0:
                for b in g1:
                    out.add(frozenset((a, b)))
        return out

    # ---- transformations (return new dicts) ----
    def dropped(self, level):
        """tree that never had `level` (not the leaf level)"""
        d = copy.deepcopy(self.data)
        i = self.h.index(level)
        assert i < len(self.h) - 1
        if i > 0:
            pl = self.h[i - 1]
            newp = {}
            for p, cs in self.data[pl].items():
                newp[p] = []
                for c in cs:
                    newp[p] += list(self.data[level][c])
            d[pl] = newp
        d.pop(level)
        d['hierarchy'] = [x for x in self.h if x != level]
        for k in ('name_mapper', 'hierarchy_mapper'):
            if k in d and isinstance(d[k], dict):
                d[k].pop(level, None)
        return d

    def flattened(self):
        d = {'hierarchy': [self.leaf_level],
             self.leaf_level: copy.deepcopy(self.data[self.leaf_level])}
        return d


def is_valid_tree(data):
    """own validity predicate (strict tree per the documentation)"""
    try:
        h = data['hierarchy']
        if not isinstance(h, list) or len(h) == 0:
            return False
        keys = set(data.keys()) - set(META_KEYS) - {'hierarchy'}
        if keys != set(h) or len(set(h)) != len(h):
            return False
        for lv in h:
            for n in data[lv]:
                if not isinstance(n, str):
                    return False
        for pl, cl in zip(h[:-1], h[1:]):
            seen = {}
            for p, cs in data[pl].items():
                for c in cs:
                    if c not in data[cl]:
                        return False
                    if c in seen and seen[c] != p:
                        return False
                    seen[c] = p
            for c in data[cl]:
                if c not in seen:
                    return False
        rows = []
        for lf, cells in data[h[-1]].items():
            rows += list(cells)
        if len(rows) != len(set(rows)):
            return False
        return True
    except Exception:
        return False


# ---------- bounded-exhaustive shapes ----------
@lru_cache(None)
def _trees(d, n):
    if d == 1:
        return [()] if n == 1 else []
    return list(_forests(d - 1, n))


@lru_cache(None)
def _forests(d, n):
    res = set()

    def rec(remaining, minshape, acc):
        if remaining == 0:
            if acc:
                res.add(tuple(acc))
            return
        for k in range(1, remaining + 1):
            for t in _trees(d, k):
                key = (k, t)
                if minshape is not None and key < minshape:
                    continue
                rec(remaining - k, key, acc + [key])
    rec(n, None, [])
    return sorted(res)


def all_shapes(max_levels=4, max_leaves=6):
    """every unordered uniform-depth forest with 1..max_levels levels and
    1..max_leaves leaves; each element is (depth, canonical nested tuple)"""
    out = []
    for d in range(1, max_levels + 1):
        for n in range(1, max_leaves + 1):
            for f in _forests(d, n):
                out.append((d, f))
    return out


def shape_to_tree(shape, naming='plain', level_names=None):
    """instantiate a canonical shape as a tree dict.
    naming: 'plain' (structural order == alphabetical order) or 'scrambled'
    (names assigned so that alphabetical order != structural order)"""
    depth, forest = shape
    if level_names is None:
        level_names = ['class', 'subclass', 'supertype', 'cluster'][4 - depth:] \
            if depth <= 4 else [f'lv{i}' for i in range(depth)]
    data = {'hierarchy': list(level_names)}
    for lv in level_names:
        data[lv] = {}
    counters = [0] * depth

    pre = {'class': 'cs', 'subclass': 'sc', 'supertype': 'st', 'cluster': 'cl'}

    def name(li, idx, total_hint=99):
        px = pre.get(level_names[li], f'L{li}')
        if naming == 'plain':
            return f'{px}{idx:02d}'
        # scrambled: reverse-ish order so sorted(names) != structural order
        return f"{px}{(idx * 37 + 3) % 97:02d}"

    def build(li, node_shape):
        # node_shape = (k, subtree) ; subtree is () for a leaf else a forest
        idx = counters[li]
        counters[li] += 1
        nm = name(li, idx)
        if li == depth - 1:
            data[level_names[li]][nm] = []
        else:
            kids = [build(li + 1, ch) for ch in node_shape[1]]
            data[level_names[li]][nm] = kids
        return nm

    for top in forest:
        build(0, top)
    return data
