"""python -m pbt.stage_runner <json args>  : run one pipeline stage in this (fresh) interpreter and print
a canonical digest of its output as JSON on the last line. Used for hash-seed and concurrency runs."""
import hashlib
import json
import pathlib
import sys
import warnings

warnings.simplefilter('ignore')


def digest_h5(path):
    from pbt import pipeline
    c = pipeline.h5_content(path)
    return {k: hashlib.sha256(json.dumps(v).encode()).hexdigest()[:16] for k, v in sorted(c.items())}


def digest_obj(obj):
    return hashlib.sha256(json.dumps(obj, sort_keys=True).encode()).hexdigest()[:16]


def digest_results(out):
    return {'results': digest_obj(out['results']), 'marker_genes': digest_obj(out['marker_genes']),
            'taxonomy_tree': digest_obj({k: v for k, v in out['taxonomy_tree'].items() if k != 'metadata'})}


def run_stage(a):
    """a: dict(stage, dir, ...) -> digest dict"""
    from pbt import pipeline, mapping
    d = pathlib.Path(a['dir'])
    w = pathlib.Path(a['work'])
    w.mkdir(exist_ok=True, parents=True)
    tmp = pathlib.Path(a.get('tmp') or a.get('harness_tmp') or (w / 'tmp'))
    tmp.mkdir(exist_ok=True, parents=True)
    st = a['stage']
    tag = a.get('tag', 'out')
    if st == 'stats':
        out = w / f'{tag}_stats.h5'
        pipeline.run_stats(d / 'ref.h5ad', a['hierarchy'], out, tmp, n_processors=a['n_processors'], rows_at_a_time=a['rows_at_a_time'])
        return digest_h5(out)
    if st == 'refm':
        out = w / f'{tag}_refm.h5'
        kw = {'gene_list': list(a['gene_list'])} if a.get('gene_list') else {}
        pipeline.run_refmarkers(d / 'stats.h5', out, tmp, n_processors=a['n_processors'], n_valid=a.get('n_valid', 5), **kw)
        return digest_h5(out)
    if st == 'qmark':
        lk = pipeline.run_query_markers(d / 'refm.h5', a['genes'], d / 'stats.h5', tmp, n_processors=a['n_processors'],
                                        n_per_utility=a.get('n_per_utility', 2), behemoth_cutoff=a.get('behemoth_cutoff', 10000000))
        return {k: digest_obj(v) for k, v in sorted(lk.items())}
    if st == 'mapping':
        paths = {'stats': d / 'stats.h5', 'query': d / 'query.h5ad', 'markers': d / 'markers.json'}
        cfg = dict(a['cfg'])
        if a.get('tmp'):
            cfg['tmp_name'] = str(tmp)
        o = mapping.run(w, paths, cfg, out_prefix=tag)
        if not o.ok:
            return {'error': f'{type(o.error).__name__}: {str(o.error)[:300]}'}
        return digest_results(o.out)
    if st == 'mapdirect':
        # run_type_assignment_on_h5ad called directly, results gathered in memory (multiprocessing.Manager list):
        # workers append their chunks in COMPLETION order
        spec = json.loads((d / 'spec.json').read_text())
        spec['cfg'] = dict(spec['cfg'], **a.get('cfg_override', {}))
        paths = {'stats': d / 'stats.h5', 'query': d / 'query.h5ad', 'markers': d / 'markers.json'}
        res, err = mapping.run_direct(w, paths, spec, use_buffer_dir=False)
        if err is not None:
            return {'error': f'{type(err).__name__}: {str(err)[:300]}'}
        from pbt.core import quiet
        return {'results': digest_obj(json.loads(json.dumps(res, default=lambda o: o.item() if hasattr(o, 'item') else str(o))))}
    raise ValueError(st)


if __name__ == '__main__':
    args = json.loads(sys.argv[1])
    if args.get('barrier'):
        import os, time
        # two concurrent runs are released together: wait until the barrier file exists
        t0 = time.time()
        pathlib.Path(args['barrier'] + f'.ready{os.getpid()}').write_text('1')
        while not os.path.exists(args['barrier']) and time.time() - t0 < 30:
            time.sleep(0.005)
    import os
    if os.environ.get('VERIF_CPU_AFFINITY'):
        # this run sees fewer usable CPUs (as under taskset / a cgroup cpuset / on a smaller machine)
        os.sched_setaffinity(0, {int(c) for c in os.environ['VERIF_CPU_AFFINITY'].split(',')})
    r = run_stage(args)
    print('\nDIGEST ' + json.dumps(r))
