"""
Generators, materialisation and the independent census for C12 (query-marker selection).

A C12 spec describes a taxonomy, a reference-marker tensor (pair x gene x direction{up, down}, up and down disjoint),
the query gene list, the per-direction target with per-parent overrides, an optional parent list and the run
configurations (worker count, large-parent threshold, entry point).  The reference-marker HDF5 file is synthesised by
hand from the tensor following the layout the library's own writer produces (diff_exp/markers.py: gene_names,
pair_to_idx, n_pairs, sparse_by_pair/*, sparse_by_gene/*; with the writer's narrow unsigned dtypes or int64).

The tensor is either written out ('up'/'down': per pair the list of gene positions) or expanded deterministically from
('counts', 'seed', 'hub') / ('p_up', 'p_down', 'seed') - structure is drawn by Hypothesis, gene choice by default_rng(seed).
"""
import itertools
import json

import h5py
import hypothesis.strategies as st
import numpy as np

from pbt import gen, treemodel


# --------------------------------------------------------------------------- tree helpers (harness model only)
def sorted_leaves(tree_data):
    return sorted(treemodel.Tree(tree_data).leaves())


def pair_list(tree_data):
    """alphabetised leaf pairs in the row order of the reference-marker table"""
    return list(itertools.combinations(sorted_leaves(tree_data), 2))


def parent_key(p):
    return 'None' if p is None else f'{p[0]}/{p[1]}'


def parents_of(tree_data):
    return treemodel.Tree(tree_data).all_parents()


def pairs_per_parent(tree_data):
    """{parent_key: sorted list of row indices of the leaf pairs lying under two different children of the parent}"""
    t = treemodel.Tree(tree_data)
    row = {frozenset(p): i for i, p in enumerate(pair_list(tree_data))}
    return {parent_key(p): sorted(row[fs] for fs in t.pairs_to_compare(p)) for p in t.all_parents()}


# --------------------------------------------------------------------------- strategies
@st.composite
def count_pairs(draw, n, n_genes):
    """(n_up, n_down) for one leaf pair, aimed at the boundaries of the target n and of 2n"""
    kind = draw(st.sampled_from(['empty', 'one_dir', 'short_both', 'short_one', 'desperate', 'desperate_p1',
                                 'exact', 'twice_m1', 'twice_p1', 'rich', 'rich', 'dense', 'any']))
    big = max(n + 1, min(n_genes // 2, 2 * n + 2))
    if kind == 'empty':
        c = (0, 0)
    elif kind == 'one_dir':
        c = (draw(st.integers(1, 2 * n + 2)), 0)
    elif kind == 'short_both':
        c = (draw(st.integers(0, max(0, n - 1))), draw(st.integers(1, max(1, n - 1))))
    elif kind == 'short_one':
        c = (draw(st.integers(0, max(0, n - 1))), draw(st.integers(n, big + n)))
    elif kind == 'desperate':        # at most n markers altogether: all taken up front
        a = draw(st.integers(0, n))
        c = (a, n - a)
    elif kind == 'desperate_p1':     # one more than the up-front rule covers
        a = draw(st.integers(0, n + 1))
        c = (a, n + 1 - a)
    elif kind == 'exact':
        c = (n, n)
    elif kind == 'twice_m1':
        a = draw(st.integers(0, 2 * n - 1))
        c = (a, 2 * n - 1 - a)
    elif kind == 'twice_p1':
        a = draw(st.integers(0, 2 * n + 1))
        c = (a, 2 * n + 1 - a)
    elif kind == 'rich':
        c = (draw(st.integers(n + 1, big)), draw(st.integers(n + 1, big)))
    elif kind == 'dense':
        a = draw(st.integers(0, n_genes))
        c = (a, n_genes - a)
    else:
        c = (draw(st.integers(0, n_genes)), draw(st.integers(0, n_genes)))
    if draw(st.booleans()):
        c = (c[1], c[0])
    up = min(c[0], n_genes)
    down = min(c[1], n_genes - up)
    return [up, down]


@st.composite
def tensors(draw, n_pairs, n_genes, n):
    mode = draw(st.sampled_from(['counts', 'counts', 'counts', 'bernoulli']))
    seed = draw(st.integers(0, 2 ** 31 - 1))
    if mode == 'bernoulli':
        p_up, p_down = draw(st.sampled_from([(0.02, 0.02), (0.1, 0.1), (0.2, 0.2), (0.45, 0.45), (0.3, 0.02),
                                             (0.02, 0.3), (0.5, 0.5)]))
        blank = draw(st.lists(st.integers(0, n_pairs - 1), max_size=3, unique=True))
        return {'mode': 'bernoulli', 'seed': seed, 'p_up': p_up, 'p_down': p_down, 'blank': blank}
    counts = [draw(count_pairs(n, n_genes)) for _ in range(n_pairs)]
    # hub: how unevenly genes are spread over pairs (0 = uniform; large = a few genes mark most pairs)
    return {'mode': 'counts', 'seed': seed, 'counts': counts, 'hub': draw(st.sampled_from([0.0, 0.0, 1.0, 2.5]))}


@st.composite
def run_configs(draw, tree_data, k=3):
    ppp = pairs_per_parent(tree_data)
    sizes = sorted(set(len(v) for v in ppp.values()))
    n_pairs = len(pair_list(tree_data))
    mids = [s for s in sizes if 0 < s < max(sizes)] or [max(0, n_pairs // 4)]
    cuts = {'zero': 0, 'mid': draw(st.sampled_from(mids)), 'huge': 10 ** 7}
    kinds = list(draw(st.permutations(['zero', 'mid', 'huge'])))
    while len(kinds) < k:
        kinds.append(draw(st.sampled_from(['zero', 'mid', 'huge'])))
    # a serial run and a parallel one in every case
    workers = list(draw(st.permutations([1, draw(st.integers(2, 4))] + [draw(st.integers(1, 4)) for _ in range(max(0, k - 2))])))
    out = []
    for kind, nw in zip(kinds[:k], workers):
        out.append({'n_processors': nw, 'behemoth_cutoff': cuts[kind], 'cutoff_kind': kind,
                    'entry': draw(st.sampled_from(['select_all_markers', 'select_all_markers', 'raw_lookup']))})
    return out


@st.composite
def wide_trees(draw):
    """a parent that has to discriminate exactly 255 / 256 / 257 leaf pairs (the capacity of a one-byte index), below the
    root or below a top-level node; leaf names numbered so that the alphabetical order is not the construction order"""
    sizes = draw(st.sampled_from([(16, 16), (8, 32), (4, 64), (2, 128), (15, 17), (5, 51), (3, 85), (1, 1, 128), (1, 1, 127),
                                  (16, 16), (2, 2, 63), (1, 3, 63)]))
    salt = draw(st.integers(0, 96))
    cluster, cls = {}, {}
    k = 0
    for ci, sz in enumerate(draw(st.permutations(list(sizes)))):
        kids = []
        for _ in range(sz):
            nm = f'k{(k * 37 + salt) % 997:03d}'
            k += 1
            kids.append(nm)
            cluster[nm] = []
        cls[f'c{(ci * 5 + salt) % 11:02d}'] = kids
    if draw(st.booleans()):
        return {'hierarchy': ['class', 'cluster'], 'class': cls, 'cluster': cluster}
    # the wide parent sits below a top-level node; a second top-level node holds a small class
    other = [f'k{(kk * 37 + salt) % 997:03d}' for kk in range(k, k + draw(st.integers(1, 3)))]
    for nm in other:
        cluster[nm] = []
    cls['zother'] = other
    top = {'T0': [c for c in cls if c != 'zother'], 'T1': ['zother']}
    if draw(st.booleans()):
        top = {'T1': top['T1'], 'T0': top['T0']}
    return {'hierarchy': ['top', 'class', 'cluster'], 'top': top, 'class': cls, 'cluster': cluster}


@st.composite
def wide_cases(draw, n_configs=3):
    tree = draw(wide_trees())
    n = draw(st.integers(1, 3))
    n_genes = draw(st.sampled_from([60, 250, 600, 600]))
    genes = [f'g{i}' for i in draw(gen.shuffled(list(range(n_genes))))]
    tensor = {'mode': 'sparse_seeded', 'seed': draw(st.integers(0, 2 ** 31 - 1)), 'max_per_direction': draw(st.sampled_from([1, 1, 2, 3]))}
    drop = draw(st.sampled_from([0, 0, 1, 3]))
    query = [g for i, g in enumerate(genes) if drop == 0 or i % 10 >= drop] + [f'zz{i}' for i in range(draw(st.integers(0, 2)))]
    return {'tree': tree, 'genes': genes, 'tensor': tensor, 'dtypes': draw(st.sampled_from(['writer', 'writer', 'int64'])),
            'query': list(draw(gen.shuffled(query))), 'n_per_utility': n, 'override': {}, 'parent_list': None,
            'configs': draw(run_configs(tree, n_configs))}


@st.composite
def cases(draw, max_levels=4, max_leaves=10, max_genes=36, n_configs=3, wide=True):
    if wide and draw(st.integers(0, 9)) == 0:
        return draw(wide_cases(n_configs=2))
    tree = draw(gen.trees(max_levels=max_levels, max_leaves=max_leaves, min_levels=1, allow_odd=True, mappers=False))
    t = treemodel.Tree(tree)
    # gen.trees favours few leaves; attach up to max_leaves - n extra leaves (at least one to a one-leaf taxonomy, which
    # has no pair at all and for which the reference-marker stage cannot produce a table) below drawn bottom-level parents
    n_have = len(t.leaves())
    room = max(0, max_leaves - n_have)
    n_extra = draw(st.integers(1 if n_have < 2 else 0, max(room, 1 if n_have < 2 else 0)))
    lv = tree['hierarchy'][-1]
    base_names = list(tree[lv].keys())
    for i in range(n_extra):
        nm = ('A' if draw(st.booleans()) else '') + draw(st.sampled_from(base_names)) + f'x{i}'
        tree[lv][nm] = []
        if len(tree['hierarchy']) > 1:
            pl = tree['hierarchy'][-2]
            tree[pl][draw(st.sampled_from(list(tree[pl].keys())))].append(nm)
    n_pairs = len(pair_list(tree))
    n = draw(st.integers(1, 6))
    # mostly enough genes for a pair to hold more than 2n markers; sometimes fewer genes than 2n (nothing can be "rich")
    lo_genes = min(max_genes, 2 * n + 2) if draw(st.sampled_from([True, True, True, False])) else max(3, n)
    n_genes = draw(st.integers(lo_genes, max_genes))
    genes = [f'g{i}' for i in draw(st.permutations(list(range(n_genes))))]
    tensor = draw(tensors(n_pairs, n_genes, n))
    # query: a subset of the reference genes (>=1, by construction) plus genes the reference does not know
    keep_p = draw(st.sampled_from([10, 10, 9, 8, 6, 3]))
    keep = [g for g in genes if draw(st.integers(0, 9)) < keep_p]
    if not keep:
        keep = [genes[draw(st.integers(0, n_genes - 1))]]
    unknown = [f'zz{i}' for i in range(draw(st.integers(0, 3)))]
    query = list(draw(st.permutations(keep + unknown)))
    parents = parents_of(tree)
    override = {}
    if draw(st.sampled_from([True, True, False])):
        for p in parents:
            if draw(st.sampled_from([True, False, False])):
                override[parent_key(p)] = draw(st.integers(1, 6))
    parent_list = None
    if draw(st.sampled_from([False, False, False, True])):
        sub = [p for p in parents if draw(st.booleans())] or [parents[0]]
        parent_list = [None if p is None else list(p) for p in draw(st.permutations(sub))]
    return {
        'tree': tree,
        'genes': genes,
        'tensor': tensor,
        'dtypes': draw(st.sampled_from(['writer', 'writer', 'int64'])),
        'query': query,
        'n_per_utility': n,
        'override': override,
        'parent_list': parent_list,
        'configs': draw(run_configs(tree, n_configs)),
    }


# --------------------------------------------------------------------------- expansion
def expand_tensor(spec):
    """-> (up, down): boolean arrays (n_pairs, n_genes), disjoint"""
    n_pairs = len(pair_list(spec['tree']))
    n_genes = len(spec['genes'])
    ten = spec['tensor']
    up = np.zeros((n_pairs, n_genes), dtype=bool)
    down = np.zeros((n_pairs, n_genes), dtype=bool)
    if 'up' in ten:
        for i in range(n_pairs):
            up[i, ten['up'][i]] = True
            down[i, ten['down'][i]] = True
    elif ten['mode'] == 'bernoulli':
        rng = np.random.default_rng(ten['seed'])
        u = rng.random((n_pairs, n_genes))
        up = u < ten['p_up']
        down = (u >= ten['p_up']) & (u < ten['p_up'] + ten['p_down'])
        for i in ten.get('blank', []):
            up[i, :] = False
            down[i, :] = False
    elif ten['mode'] == 'sparse_seeded':
        # 0..max_per_direction markers per pair and direction, genes uniform (most genes mark only a few pairs)
        rng = np.random.default_rng(ten['seed'])
        m = int(ten['max_per_direction'])
        for i in range(n_pairs):
            nu, nd = rng.integers(1, m + 1, 2)
            if rng.random() < 0.1:
                nu, nd = (0, nd) if rng.random() < 0.5 else (0, 0)
            idx = rng.choice(n_genes, size=min(n_genes, nu + nd), replace=False)
            up[i, idx[:nu]] = True
            down[i, idx[nu:]] = True
    else:
        rng = np.random.default_rng(ten['seed'])
        w = (1.0 + np.arange(n_genes)) ** (-float(ten.get('hub', 0.0)))
        w = w[rng.permutation(n_genes)]
        w = w / w.sum()
        for i, (nu, nd) in enumerate(ten['counts']):
            k = nu + nd
            if k == 0:
                continue
            idx = rng.choice(n_genes, size=k, replace=False, p=w)
            rng.shuffle(idx)
            up[i, idx[:nu]] = True
            down[i, idx[nu:]] = True
    assert not np.any(up & down)
    return up, down


def explicit(spec):
    """the same case with the tensor written out"""
    up, down = expand_tensor(spec)
    out = dict(spec)
    out['tensor'] = {'up': [np.where(r)[0].tolist() for r in up], 'down': [np.where(r)[0].tolist() for r in down]}
    return out


# --------------------------------------------------------------------------- the reference-marker file
def _uint_for(mx):
    for dt in (np.uint8, np.uint16, np.uint32, np.uint64):
        if mx <= np.iinfo(dt).max:
            return dt
    return np.uint64


def _csr(mask):
    """(indptr, indices) of a boolean matrix, indices ascending in each row"""
    indptr = np.zeros(mask.shape[0] + 1, dtype=np.int64)
    rows = []
    for i in range(mask.shape[0]):
        r = np.where(mask[i])[0]
        rows.append(r)
        indptr[i + 1] = indptr[i] + len(r)
    indices = np.concatenate(rows).astype(np.int64) if rows and indptr[-1] > 0 else np.zeros(0, dtype=np.int64)
    return indptr, indices


def write_reference_markers(path, spec, up, down):
    tree = spec['tree']
    leaf_level = tree['hierarchy'][-1]
    pairs = pair_list(tree)
    n_pairs, n_genes = up.shape
    p2i = {leaf_level: {}}
    for lf in sorted_leaves(tree):
        p2i[leaf_level][lf] = {}
    for i, (a, b) in enumerate(pairs):
        p2i[leaf_level][a][b] = i
    narrow = spec.get('dtypes', 'int64') == 'writer'
    with h5py.File(path, 'w') as f:
        f.create_dataset('gene_names', data=json.dumps(list(spec['genes'])).encode('utf-8'))
        f.create_dataset('pair_to_idx', data=json.dumps(p2i).encode('utf-8'))
        f.create_dataset('n_pairs', data=n_pairs)
        for name, m in (('up', up), ('down', down)):
            ptr, idx = _csr(m)
            tptr, tidx = _csr(m.T)
            if narrow:
                # dtypes of the library's writer: pointer array sized by the number of entries, gene indices by the number
                # of genes; the by-gene table carries an int64 pointer array and pair indices sized by the number of pairs
                ptr = ptr.astype(_uint_for(len(idx)))
                idx = idx.astype(_uint_for(n_genes))
                tidx = tidx.astype(_uint_for(n_pairs))
            f.create_dataset(f'sparse_by_pair/{name}_pair_idx', data=ptr)
            f.create_dataset(f'sparse_by_pair/{name}_gene_idx', data=idx)
            f.create_dataset(f'sparse_by_gene/{name}_gene_idx', data=tptr)
            f.create_dataset(f'sparse_by_gene/{name}_pair_idx', data=tidx)
