"""
Generator and deterministic expansion for C09 (reference statistics).

A spec is
  {'tree':   taxonomy dict with EMPTY cell lists at the leaf level (optionally name_mapper/hierarchy_mapper),
   'genes':  [gene names] (one order for every file: the writers reject files whose var index differs),
   'cells':  [cell id strings]                     (canonical order = row order of the matrix)
   'labels': [leaf index into list(tree[leaf_level]) or -1 = cell not named by the taxonomy],
   'cells_as_int': bool  (tree route lists numeric-looking ids as JSON integers; the code str()s them)
   'x':      {'kind': 'raw'|'log2', 'dtype', 'seed', 'max_count', 'density', 'rows': [row kind per cell]} or {'values': [[...]], 'kind', 'dtype'}
   'parts':  [ {'route': 'tree'|'columns'|'rows', 'files': [{'enc', 'rows': [canonical cell indices]}],
                'rows_at_a_time', 'n_processors', 'tmp_dir': bool, 'copy_data_over': bool} ... ]   parts[0] is the baseline, the others are re-layouts of the same cells
             routes: 'tree' = file list + taxonomy naming cells; 'columns' = one file, obs label columns (only the labelled cells are in it);
                     'rows' = one file + taxonomy listing row numbers
   'datasets': None or [dataset index per cell]   (only labelled cells matter) -> per-dataset files -> merge
   'ds_metadata': bool}
"""
import hypothesis.strategies as st
import numpy as np

from pbt import gen

RAW_DTYPES = ['int32', 'int64', 'uint32', 'uint16', 'float32', 'float64']
LOG_DTYPES = ['float32', 'float64']
RAW_ROW_KINDS = ['rand'] * 8 + ['zero', 'cpm1', 'cpm1', 'cpm1_band', 'cpm1_lo', 'cpm1_hi', 'big']
LOG_ROW_KINDS = ['rand'] * 6 + ['zero', 'one', 'one', 'band', 'lo', 'hi']
MILLION = 10 ** 6


# ------------------------------------------------------------------ expansion
def expand_x(spec):
    """-> numpy array (n_cells x n_genes) of the declared dtype; pure function of the spec"""
    xs = spec['x']
    dt = np.dtype(xs['dtype'])
    if 'values' in xs:
        return np.array(xs['values'], dtype=dt).reshape(len(spec['cells']), len(spec['genes']))
    n, g = len(spec['cells']), len(spec['genes'])
    rng = np.random.default_rng(xs['seed'])
    mask = rng.random((n, g)) < xs.get('density', 0.7)
    if xs['kind'] == 'raw':
        mx = xs.get('max_count', 40)
        x = rng.integers(0, mx + 1, (n, g)) * mask
        can_big = dt.kind == 'f' or np.iinfo(dt).max >= 4 * MILLION
        for i, kind in enumerate(xs['rows']):
            aux = np.random.default_rng([xs['seed'], i])
            if kind == 'zero':
                x[i, :] = 0
            elif kind == 'big':
                top = 50000 if (dt.kind == 'f' or np.iinfo(dt).max >= 65535) else 200
                x[i, :] = aux.integers(0, top + 1, g) * mask[i]
            elif kind.startswith('cpm1') and g >= 2 and can_big:
                # count k at one gene, the rest of the row makes the total k*10^6 (+ offset)
                k = int(aux.integers(1, 4))
                off = {'cpm1': 0, 'cpm1_band': 1, 'cpm1_lo': 3, 'cpm1_hi': -1}[kind] * k
                total = k * MILLION + off
                j0 = int(aux.integers(0, g))
                others = [j for j in range(g) if j != j0]
                x[i, :] = 0
                x[i, j0] = k
                rest = total - k
                if len(others) >= 2 and aux.random() < 0.5:
                    # a second gene with exactly k counts as well, remainder elsewhere
                    j1, j2 = others[0], others[1]
                    x[i, j1] = k
                    x[i, j2] = rest - k
                else:
                    x[i, others[int(aux.integers(0, len(others)))]] = rest
        return x.astype(dt)
    # pre-normalised log2(CPM+1) floats
    x = np.round(rng.random((n, g)) * 12.0, 3) * mask
    # keep the generic values out of the ge1 band
    x = np.where(np.abs(x - 1.0) < 1e-3, 1.5, x)
    for i, kind in enumerate(xs['rows']):
        aux = np.random.default_rng([xs['seed'], i])
        if kind == 'zero':
            x[i, :] = 0.0
        elif kind in ('one', 'band', 'lo', 'hi'):
            v = {'one': 1.0, 'band': 1.0 - 5e-7, 'lo': 1.0 - 3e-6, 'hi': 1.0 + 1e-6}[kind]
            js = aux.integers(0, g, 2)
            x[i, js] = v
    return x.astype(dt)


def explicit(spec):
    import json
    out = json.loads(json.dumps(spec))
    if 'values' not in out['x']:
        v = expand_x(spec)
        out['x'] = {'kind': spec['x']['kind'], 'dtype': spec['x']['dtype'], 'values': v.tolist()}
    return out


# ------------------------------------------------------------------ strategy
@st.composite
def _partition(draw, route, lab_idx, all_idx, max_files=4):
    """one way of laying the cells out in files + run configuration"""
    if route in ('columns', 'rows'):
        # one file: label columns (every cell labelled) or a tree that lists row numbers (unnamed rows allowed)
        src = lab_idx if route == 'columns' else all_idx
        rows = list(draw(gen.shuffled(src))) if draw(st.booleans()) else list(src)
        files = [{'enc': draw(st.sampled_from(['csr', 'csc', 'dense'])), 'rows': rows}]
    else:
        n = len(all_idx)
        n_files = draw(st.integers(1, min(max_files, n)))
        mode = draw(st.sampled_from(['blocks', 'scatter', 'scatter']))
        order = list(draw(gen.shuffled(all_idx))) if mode == 'scatter' or draw(st.booleans()) else list(all_idx)
        if n_files == 1:
            groups = [order]
        else:
            cuts = sorted(draw(st.lists(st.integers(1, n - 1), min_size=n_files - 1, max_size=n_files - 1, unique=True))) \
                if n - 1 >= n_files - 1 else list(range(1, n))
            groups = [order[a:b] for a, b in zip([0] + cuts, cuts + [n])]
        files = [{'enc': draw(st.sampled_from(['csr', 'csc', 'dense'])), 'rows': grp} for grp in groups if grp]
    n_rows = sum(len(f['rows']) for f in files)
    return {'route': route, 'files': files,
            'rows_at_a_time': (draw(st.integers(1, n_rows + 2)) if n_rows <= 60
                               else draw(st.sampled_from([17, 40, 64, 100, 128, 255, 256, n_rows, n_rows + 2]))),
            'n_processors': draw(st.integers(1, 4)),
            'tmp_dir': draw(st.integers(0, 3)) > 0,
            'copy_data_over': route == 'tree' and draw(st.integers(0, 3)) == 3,
            'same_names': len(files) > 1 and draw(st.booleans())}


@st.composite
def cases(draw, max_cells=22, max_genes=7, max_leaves=7):
    tree = draw(gen.trees(max_levels=4, max_leaves=max_leaves, mappers=True))
    h = tree['hierarchy']
    leaves = list(tree[h[-1]].keys())
    nl = len(leaves)
    n_genes = draw(st.integers(1, max_genes))
    genes = gen.gene_names(n_genes)
    if draw(st.booleans()):
        genes = list(draw(st.permutations(genes)))
    # ---- labels
    shape = draw(st.sampled_from(['any', 'any', 'any', 'any', 'one_big', 'one_big', 'singletons', 'singletons', 'huge']))
    n_extra = 0 if shape == 'singletons' else draw(st.integers(0, max(0, max_cells - nl)))
    if shape == 'huge':
        # one cluster with more cells than a one-byte counter holds (the others small), spread over files / workers
        big = draw(st.integers(0, nl - 1))
        n_extra = draw(st.sampled_from([254, 255, 256, 257, 300]))
        extra = [big] * n_extra + [draw(st.integers(0, nl - 1)) for _ in range(draw(st.integers(0, 6)))]
    elif shape == 'one_big':
        big = draw(st.integers(0, nl - 1))
        extra = [big if draw(st.integers(0, 3)) else draw(st.integers(0, nl - 1)) for _ in range(n_extra)]
    else:
        extra = draw(st.lists(st.integers(0, nl - 1), min_size=n_extra, max_size=n_extra))
    labels = list(range(nl)) + extra
    n_unl = draw(st.integers(0, 4)) if draw(st.booleans()) else 0
    labels += [-1] * n_unl
    if nl >= 2 and draw(st.integers(0, 11)) == 11:
        # a leaf of the taxonomy without any cell (its cells stay in the files, unnamed)
        empty = draw(st.integers(0, nl - 1))
        labels = [-1 if lb == empty else lb for lb in labels]
    labels = list(draw(gen.shuffled(labels)))
    n = len(labels)
    id_scheme = draw(st.sampled_from(['c', 'c', 'num', 'uni']))
    if id_scheme == 'c':
        cells = [f'c{i}' for i in range(n)]
    elif id_scheme == 'num':
        base = draw(st.integers(0, 1000))
        cells = [str(base + 3 * i) for i in range(n)]
    else:
        cells = [f'célula_{i}β' for i in range(n)]
    cells_as_int = id_scheme == 'num' and draw(st.booleans())
    # ---- matrix
    kind = draw(st.sampled_from(['raw', 'raw', 'log2']))
    if kind == 'raw':
        dtype = draw(st.sampled_from(RAW_DTYPES))
        rows = [draw(st.sampled_from(RAW_ROW_KINDS)) for _ in range(min(n, 24))]
    else:
        dtype = draw(st.sampled_from(LOG_DTYPES))
        rows = [draw(st.sampled_from(LOG_ROW_KINDS)) for _ in range(min(n, 24))]
    rows = [rows[i % len(rows)] for i in range(n)]
    x = {'kind': kind, 'dtype': dtype, 'seed': draw(st.integers(0, 2 ** 31 - 1)),
         'max_count': draw(st.sampled_from([3, 40, 40, 1000])),
         'density': draw(st.sampled_from([0.3, 0.7, 0.7, 1.0])), 'rows': rows}
    # ---- partitions
    all_idx = list(range(n))
    lab_idx = [i for i in all_idx if labels[i] >= 0]
    routes = ['tree', 'tree', 'tree', 'columns', 'columns', 'rows']
    n_parts = draw(st.integers(2, 3))
    parts = [draw(_partition(draw(st.sampled_from(routes)), lab_idx, all_idx)) for _ in range(n_parts)]
    # ---- datasets for the merge
    datasets = None
    ds_metadata = False
    if len(lab_idx) >= 2 and draw(st.integers(0, 2)) == 0:
        n_ds = draw(st.integers(2, 3))
        ds = draw(st.lists(st.integers(0, n_ds - 1), min_size=n, max_size=n))
        datasets = ds
        ds_metadata = draw(st.booleans())
    return {'tree': tree, 'genes': genes, 'cells': cells, 'labels': labels, 'cells_as_int': cells_as_int,
            'obs_index_name': draw(st.sampled_from([None, None, None, 'cell_label'])),
            'var_index_name': draw(st.sampled_from([None, None, None, 'gene_identifier'])),
            'x': x, 'parts': parts, 'datasets': datasets, 'ds_metadata': ds_metadata}
