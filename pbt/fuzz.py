"""
Coverage-guided tier (atheris / libFuzzer) for in-process properties:

  python -m pbt.fuzz <ID> <tier> <seed> <outfile> <max_seconds> <runs>

drives the SAME Hypothesis strategy and oracle as the generated search through
`fuzz_one_input` (bytes -> Hypothesis choice sequence -> spec -> check), with the
package instrumented for coverage. A failure is written to <outfile> as a spec and is
re-checked by the caller in a plain interpreter before it is reported.
"""
import json
import os
import sys
import time
import warnings


def main(argv):
    pid, tier, seed, outfile, max_s, runs = argv[0], argv[1], int(argv[2]), argv[3], int(argv[4]), int(argv[5])
    warnings.simplefilter('ignore')
    import atheris
    include = json.loads(os.environ.get('VERIF_ATHERIS_INCLUDE', '["cell_type_mapper"]'))
    with atheris.instrument_imports(include=include, exclude=['cell_type_mapper.data']):
        import cell_type_mapper  # noqa
        from pbt import core
        mod = core.load_prop(pid)
        # import every module under the included packages now, while instrumentation is on
        # (the property modules import the library lazily inside check())
        import importlib
        import pkgutil
        for name in include:
            try:
                m = importlib.import_module(name)
            except Exception:
                continue
            if hasattr(m, '__path__'):
                for info in pkgutil.walk_packages(m.__path__, prefix=name + '.'):
                    if '.data' in info.name or 'gpu_utils' in info.name or 'visualization' in info.name or '.cli' in info.name \
                            or 'schemas' in info.name or 'test_utils' in info.name:
                        continue
                    try:
                        importlib.import_module(info.name)
                    except Exception:
                        pass
    from hypothesis import given, settings, HealthCheck
    from pbt.core import eval_case, match_known
    state = {'n': 0, 'nontrivial': 0, 'classes': {}, 'violation': None, 't0': time.time()}

    def flush():
        with open(outfile + '.tmp', 'w') as f:
            json.dump({'execs': state['n'], 'nontrivial': state['nontrivial'], 'classes': state['classes'],
                       'violation': state['violation'], 'wall_s': time.time() - state['t0']}, f, default=str)
        os.replace(outfile + '.tmp', outfile)

    @settings(database=None, deadline=None, suppress_health_check=list(HealthCheck))
    @given(mod.strategy(tier))
    def test(spec):
        excl = getattr(mod, 'exclude', None)
        if excl is not None and excl(spec):
            return
        state['n'] += 1
        res = eval_case(mod, spec)
        if res[0] == 'ok':
            if res[1].nontrivial:
                state['nontrivial'] += 1
            for c in res[1].classes:
                state['classes'][c] = state['classes'].get(c, 0) + 1
        elif res[0] == 'violation':
            if match_known(pid, spec, res[1], mod):
                return
            state['violation'] = {'spec': spec, 'clause': res[1], 'detail': res[2]}
            flush()
            raise AssertionError(res[1])
        if state["n"] % 10 == 0:
            flush()

    def target(data):
        try:
            test.hypothesis.fuzz_one_input(data)
        except AssertionError:
            flush()
            os._exit(0)     # the caller re-checks and reports; do not let libFuzzer write crash files around

    corpus = outfile + '.corpus'
    os.makedirs(corpus, exist_ok=True)
    # starting corpus: byte strings long enough for the Hypothesis choice sequence (with an empty corpus
    # libFuzzer spends its budget on 1-8 byte inputs that Hypothesis rejects); a pure function of the seed
    import random
    rnd = random.Random(seed)
    for i in range(48):
        ln = rnd.choice([256, 512, 1024, 2048, 4096])
        mode = i % 3
        if mode == 0:
            b = bytes(rnd.getrandbits(8) for _ in range(ln))
        elif mode == 1:      # small values: Hypothesis draws small integers / short lists
            b = bytes(rnd.choice([0, 0, 1, 1, 2, 3, 5, 8, 255]) for _ in range(ln))
        else:
            b = bytes((rnd.getrandbits(8) if rnd.random() < 0.3 else 0) for _ in range(ln))
        with open(os.path.join(corpus, f'seed_{i:02d}'), 'wb') as f:
            f.write(b)
    args = [sys.argv[0], corpus, f'-seed={seed}', f'-max_total_time={max_s}', f'-runs={runs}', '-len_control=0',
            '-max_len=4096', '-print_final_stats=0', '-verbosity=0']
    atheris.Setup(args, target)
    import atexit
    try:
        atheris.Fuzz()
    finally:
        flush()


if __name__ == '__main__':
    try:
        main(sys.argv[1:])
    finally:
        pass
