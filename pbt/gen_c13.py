"""
C13 helpers: expansion of sparse fill patterns, the independent (pure numpy)
transposition oracle, structural checks of compressed arrays, source-file
writers and the Hypothesis strategies.

Orientation used throughout: a compressed matrix has `n_major` slices (the
pointer array has n_major+1 entries) and a minor axis of size `n_minor` (the
values found in the index array).  Transposing it yields a matrix compressed
along the old minor axis.
"""
import h5py
import numpy as np
import hypothesis.strategies as st

VALUE_DTYPES = ['float32', 'float64', 'int32', 'int64', 'uint8', 'uint16', 'uint32']
BUDGETS = [1e-9, 1e-8, 1e-7, 1e-6, 3e-6, 1e-5, 3e-5, 1e-4, 1e-3, 1.0]


# ------------------------------------------------------------------ patterns
def expand_pattern(m):
    """matrix description -> (P bool [n_major, n_minor], V values [n_major, n_minor] of m['vdtype'])

    'mask'    : integer, bit (i*n_minor+j) set <=> an entry is stored at (i, j)
    'entries' : explicit list of [i, j]
    otherwise : seed/density/family/empty_major/empty_minor (default_rng(seed))
    Values identify the position they come from (1 + i*n_minor + j, folded into
    the range of narrow dtypes); with 'explicit_zeros' every stored entry whose
    position number is a multiple of 5 holds the value 0 (a stored zero)."""
    n_major, n_minor = m['shape']
    P = np.zeros((n_major, n_minor), dtype=bool)
    if 'mask' in m:
        k = int(m['mask'])
        bits = np.array([(k >> b) & 1 for b in range(n_major * n_minor)], dtype=bool)
        P = bits.reshape((n_major, n_minor))
    elif 'entries' in m:
        for i, j in m['entries']:
            P[i, j] = True
    else:
        rng = np.random.default_rng(m['seed'])
        fam = m.get('family', 'random')
        if fam == 'dense':
            P[:] = True
        elif fam == 'empty':
            pass
        elif fam == 'single':
            P[int(rng.integers(0, n_major)), int(rng.integers(0, n_minor))] = True
        else:
            P = rng.random((n_major, n_minor)) < m.get('density', 0.5)
            for i in m.get('empty_major', []):
                P[i % n_major, :] = False
            for j in m.get('empty_minor', []):
                P[:, j % n_minor] = False
    pos = np.arange(n_major * n_minor, dtype=np.int64).reshape((n_major, n_minor))
    dt = np.dtype(m.get('vdtype', 'float64'))
    if dt == np.uint8:
        V = 1 + pos % 250
    else:
        V = 1 + pos
    if dt.kind == 'f':
        V = V + 0.5
    if m.get('explicit_zeros'):
        V = np.where(pos % 5 == 0, 0, V)
    V = np.where(P, V, 0).astype(dt)
    return P, V


def compress(P, V, idx_dtype='int32'):
    """canonical compressed form along axis 0 (sorted, duplicate-free indices)"""
    major, minor = np.nonzero(P)           # row-major order: sorted by major then minor
    indptr = np.concatenate([[0], np.cumsum(P.sum(axis=1))]).astype(idx_dtype)
    return indptr, minor.astype(idx_dtype), V[major, minor]


def expected_transpose(P, V, sl=None):
    """transpose of the sub-matrix P[:, a:b], compressed along the (old) minor axis;
    written from the definition, no library code involved"""
    a, b = (0, P.shape[1]) if sl is None else sl
    Pt = P[:, a:b].T
    Vt = V[:, a:b].T
    k, i = np.nonzero(Pt)
    indptr = np.concatenate([[0], np.cumsum(Pt.sum(axis=1))]).astype(np.int64)
    return indptr, i.astype(np.int64), Vt[k, i]


def densify(indptr, indices, data, n_slices, n_other):
    out = np.zeros((n_slices, n_other), dtype=np.float64 if data is None else np.result_type(data.dtype, np.float64))
    for s in range(n_slices):
        j0, j1 = int(indptr[s]), int(indptr[s + 1])
        out[s, indices[j0:j1]] = 1.0 if data is None else data[j0:j1]
    return out


def structure_problem(indptr, indices, data, n_slices, n_other):
    """-> (clause, detail) for the first violated structural invariant, or None"""
    indptr = np.asarray(indptr)
    indices = np.asarray(indices)
    if indptr.ndim != 1 or len(indptr) != n_slices + 1:
        return 'pointer_length', {'len': int(indptr.shape[0]) if indptr.ndim == 1 else list(indptr.shape), 'want': n_slices + 1}
    ip = indptr.astype(np.int64)
    if ip[0] != 0:
        return 'pointer_starts_at_zero', {'indptr': ip.tolist()[:40]}
    if (np.diff(ip) < 0).any():
        return 'pointer_monotone', {'indptr': ip.tolist()[:40]}
    if ip[-1] != len(indices):
        return 'pointer_ends_at_nnz', {'last': int(ip[-1]), 'n_indices': int(len(indices))}
    if data is not None and len(data) != len(indices):
        return 'value_array_length', {'n_data': int(len(data)), 'n_indices': int(len(indices))}
    ix = indices.astype(np.int64)
    if len(ix) and (ix.min() < 0 or ix.max() >= n_other):
        return 'index_in_range', {'min': int(ix.min()), 'max': int(ix.max()), 'bound': n_other}
    for s in range(n_slices):
        seg = ix[ip[s]:ip[s + 1]]
        if len(seg) > 1 and (np.diff(seg) <= 0).any():
            return 'indices_sorted_unique', {'slice': s, 'indices': seg.tolist()[:40]}
    return None


def write_compressed(path, indptr, indices, data, group=None, chunks=None):
    with h5py.File(path, 'w') as f:
        g = f if group is None else f.create_group(group)
        for name, arr in (('data', data), ('indices', indices), ('indptr', indptr)):
            c = None
            if chunks and len(arr):
                c = (max(1, min(int(chunks), len(arr))),)
            g.create_dataset(name, data=arr, chunks=c)
    return path


# ------------------------------------------------------------------ trigger regions of the candidate defects
def nnz_of(m):
    P, _ = expand_pattern(m)
    return int(P.sum())


def t_parallel_no_entry(m, v):
    return v['mode'] == 'parallel' and nnz_of(m) == 0


def t_parallel_data_fewer_entries_than_pointers(m, v):
    return v['mode'] == 'parallel' and v.get('use_data', True) and nnz_of(m) < m['shape'][1] + 1


# ------------------------------------------------------------------ strategies
@st.composite
def big_matrices(draw):
    fam = draw(st.sampled_from(['random'] * 7 + ['dense', 'empty', 'single']))
    size = draw(st.sampled_from(['small', 'medium', 'large', 'large', 'large', 'large']))
    lo, hi = {'small': (1, 6), 'medium': (5, 15), 'large': (12, 30)}[size]
    n_major = draw(st.integers(lo, hi))
    n_minor = draw(st.integers(lo, hi))
    shape_mode = draw(st.integers(0, 9))
    if shape_mode == 0:
        # tall / wide extremes (one slice, or a minor axis of one)
        if draw(st.booleans()):
            n_major = 1
        else:
            n_minor = 1
    elif shape_mode in (1, 2):
        # very elongated matrices: one output (or input) slice alone holds more than 100 stored entries,
        # i.e. more than the enforced minimum block / load-chunk size
        long_side = draw(st.integers(110, 260))
        short_side = draw(st.integers(1, 6))
        n_major, n_minor = (long_side, short_side) if draw(st.booleans()) else (short_side, long_side)
    elif shape_mode == 3 and draw(st.integers(0, 3)) == 0:
        # more stored entries than a two-byte counter holds (65 535)
        n_major = draw(st.integers(262, 300))
        n_minor = draw(st.integers(262, 300))
        fam = 'random'
    m = {'shape': [n_major, n_minor], 'seed': draw(st.integers(0, 2**31 - 1)), 'family': fam,
         'vdtype': draw(st.sampled_from(VALUE_DTYPES))}
    if fam == 'random':
        m['density'] = draw(st.sampled_from([0.03, 0.15, 0.4, 0.6, 0.8, 0.95] if shape_mode not in (1, 2) and n_major < 262
                                            else [0.97] if n_major >= 262 else [0.6, 0.9, 0.97]))
        m['empty_major'] = draw(st.lists(st.integers(0, n_major - 1), max_size=3, unique=True))
        m['empty_minor'] = draw(st.lists(st.integers(0, n_minor - 1), max_size=3, unique=True))
    if draw(st.integers(0, 5)) == 0:
        m['explicit_zeros'] = True
    return m


@st.composite
def transposition_cases(draw):
    m = draw(big_matrices())
    n_major, n_minor = m['shape']
    mode = draw(st.sampled_from(['serial', 'serial', 'serial', 'parallel', 'parallel', 'csc2csr', 'byway']))
    v = {'mode': mode, 'max_gb': draw(st.sampled_from(BUDGETS))}
    if mode == 'byway':
        v['use_data'] = False
        v['tmp_dir'] = draw(st.booleans())
    else:
        v['use_data'] = draw(st.booleans())
    if mode == 'serial' and draw(st.booleans()):
        a = draw(st.integers(0, n_minor - 1))
        b = draw(st.integers(a + 1, n_minor))
        v['slice'] = [a, b]
    if mode == 'parallel':
        v['n_proc'] = draw(st.integers(1, 5))
        v['uint_ok'] = draw(st.booleans())
    return {'kind': 'T', 'm': m, 'variants': [v],
            'idx_dtype': draw(st.sampled_from(['int32', 'int32', 'int64'])),
            'src_chunks': draw(st.sampled_from([None, None, 1, 7, 64]))}


SMALL_VALUES = [0, 0, 0, 1, 2, 3, 9, 17, 60]


@st.composite
def small_dense(draw, n_rows=None, n_cols=None, max_rows=7, max_cols=6, min_rows=1):
    """explicit small matrix (list of rows of non-negative ints) so that it shrinks well"""
    nr = n_rows if n_rows is not None else draw(st.integers(min_rows, max_rows))
    nc = n_cols if n_cols is not None else draw(st.integers(1, max_cols))
    fam = draw(st.sampled_from(['any'] * 6 + ['zero', 'single', 'full']))
    if fam == 'zero':
        return [[0] * nc for _ in range(nr)]
    if fam == 'single':
        x = [[0] * nc for _ in range(nr)]
        x[draw(st.integers(0, nr - 1))][draw(st.integers(0, nc - 1))] = draw(st.integers(1, 60))
        return x
    if fam == 'full':
        return [[draw(st.integers(1, 60)) for _ in range(nc)] for _ in range(nr)]
    return [[draw(st.sampled_from(SMALL_VALUES)) for _ in range(nc)] for _ in range(nr)]


def _frame_cols(n, tag):
    return {f'{tag}_int': [3 * i + 1 for i in range(n)], f'{tag}_str': [f'{tag}{(i * 7) % 5}' for i in range(n)]}


@st.composite
def h5ad_files(draw, encs=('csr', 'csc', 'dense'), n_cols=None, dtype=None, layers=(None, 'raw'), min_rows=1,
               layouts=('anndata', 'anndata', 'small_chunks', 'contiguous'), max_rows=7, max_cols=6):
    x = draw(small_dense(n_cols=n_cols, min_rows=min_rows, max_rows=max_rows, max_cols=max_cols))
    nr, nc = len(x), len(x[0])
    scheme = draw(st.sampled_from(['c', 'num', 'uni']))
    cells = {'c': [f'c{i}' for i in range(nr)], 'num': [str(100 + 3 * i) for i in range(nr)],
             'uni': [f'célula_{i}β' for i in range(nr)]}[scheme]
    return {'x': x, 'dtype': dtype or draw(st.sampled_from(VALUE_DTYPES)),
            'enc': draw(st.sampled_from(list(encs))),
            'layer': draw(st.sampled_from(list(layers))),
            'cells': cells, 'genes': [f'g{i}' for i in range(nc)],
            'with_cols': draw(st.booleans()),
            'layout': draw(st.sampled_from(list(layouts))),
            'chunk': draw(st.integers(1, 4))}


@st.composite
def fileop_cases(draw):
    op = draw(st.sampled_from(['pivot', 'shuffle', 'subset', 'amalgamate', 'amalgamate', 'layer2x', 'layer2x', 'h5copy', 'h5copy_tree']))
    spec = {'kind': 'F', 'op': op}
    if op == 'pivot':
        spec['src'] = draw(h5ad_files(encs=('csr',), layers=(None,), layouts=('anndata', 'small_chunks', 'contiguous')))
        spec['n_proc'] = draw(st.integers(1, 4))
        spec['max_gb'] = draw(st.sampled_from(BUDGETS))
        spec['compression'] = draw(st.booleans())
    elif op == 'shuffle':
        spec['src'] = draw(h5ad_files(encs=('csr',), layers=(None,), min_rows=draw(st.sampled_from([1, 2, 3]))))
        spec['order'] = list(draw(st.permutations(list(range(len(spec['src']['x']))))))
        spec['compression'] = draw(st.booleans())
    elif op == 'subset':
        spec['src'] = draw(h5ad_files(encs=('csc',), layers=(None,)))
        nc = len(spec['src']['genes'])
        spec['columns'] = draw(st.lists(st.integers(0, nc - 1), min_size=1, max_size=nc, unique=True))
        spec['compression'] = draw(st.booleans())
    elif op == 'amalgamate':
        nc = draw(st.integers(1, 6))
        dtype = draw(st.sampled_from(VALUE_DTYPES))
        k = draw(st.sampled_from([1, 2, 2, 3, 3, 4]))
        spec['sources'] = []
        for _ in range(k):
            mode = draw(st.sampled_from(['any', 'any', 'sorted', 'block', 'block']))
            if mode == 'block':
                f = draw(h5ad_files(n_cols=nc, dtype=dtype, layouts=('anndata', 'anndata', 'small_chunks'),
                                    encs=('csr', 'csc', 'csr', 'csc', 'dense'), min_rows=4))
            else:
                f = draw(h5ad_files(n_cols=nc, dtype=dtype, layouts=('anndata', 'anndata', 'small_chunks')))
            nr = len(f['x'])
            if mode == 'block':
                # a contiguous range of rows in arbitrary order (all rows shuffled, a block with its interior
                # swapped, a reversed block ...): the shapes a "this is one slice" shortcut would mistake
                if draw(st.integers(0, 2)) > 0:
                    a = draw(st.integers(0, nr - 4))
                    b = draw(st.integers(a + 4, nr))
                    inner = list(draw(st.permutations(list(range(a + 1, b - 1)))))
                    if inner == sorted(inner):
                        inner = inner[::-1]
                    rows = [a] + inner + [b - 1]
                else:
                    a = draw(st.integers(0, nr - 1))
                    b = draw(st.integers(a + 1, nr))
                    rows = list(draw(st.permutations(list(range(a, b)))))
            else:
                rows = draw(st.lists(st.integers(0, nr - 1), min_size=1, max_size=nr, unique=True))
                if mode == 'sorted':
                    rows = sorted(rows)
            spec['sources'].append({'file': f, 'rows': rows})
        # further selections that go back to a file already used: the same matrix again, or the other matrix of that
        # file (X when the first selection read a layer, a layer when it read X)
        for k, src in enumerate(spec['sources']):
            src['id'] = k
        if draw(st.booleans()):
            base = list(spec['sources'])
            for _ in range(draw(st.integers(1, 2))):
                j = draw(st.integers(0, len(base) - 1))
                fj = base[j]['file']
                nr = len(fj['x'])
                pk = {'reuse': j, 'rows': draw(st.lists(st.integers(0, nr - 1), min_size=1, max_size=nr, unique=True)),
                      'other_layer': draw(st.booleans())}
                if pk['other_layer'] and 'alt_x' not in base[j]:
                    base[j]['alt_x'] = draw(small_dense(n_rows=nr, n_cols=nc))
                    base[j]['alt_enc'] = draw(st.sampled_from(['csr', 'csc', 'dense']))
                spec['sources'].insert(draw(st.integers(j + 1, len(spec['sources']))), pk)
        spec['dst_sparse'] = draw(st.booleans())
        spec['compression'] = draw(st.booleans())
    elif op == 'layer2x':
        if draw(st.booleans()):
            # a dense matrix stored in several small 2-d HDF5 chunks (more than two chunks' worth of elements)
            spec['src'] = draw(h5ad_files(encs=('dense',), layouts=('small_chunks',), min_rows=3, max_rows=12, max_cols=10))
        else:
            spec['src'] = draw(h5ad_files())
        spec['compression'] = False
    elif op == 'h5copy':
        spec['src'] = draw(h5ad_files())
        spec['max_elements'] = draw(st.integers(1, 12))
        spec['exclude'] = draw(st.sampled_from(['none', 'none', 'obs', 'var', 'X', 'layers']))
    else:
        spec['tree'] = draw(h5_trees())
        spec['max_elements'] = draw(st.integers(1, 40))
        names = [e['path'] for e in spec['tree']]
        groups = sorted({'/'.join(n.split('/')[:i]) for n in names for i in range(1, len(n.split('/')))})
        spec['excluded_datasets'] = draw(st.lists(st.sampled_from(names), max_size=2, unique=True))
        spec['excluded_groups'] = draw(st.lists(st.sampled_from(groups), max_size=1, unique=True)) if groups else []
    return spec


@st.composite
def h5_trees(draw):
    """a small generic HDF5 tree: datasets of 0-3 dimensions, chunked / contiguous / compressed, strings, attributes"""
    paths = draw(st.lists(st.sampled_from(['a', 'b', 'c/d', 'c/e', 'c/x', 'f/g/h', 'f/g/i', 'f/j/k']),
                          min_size=1, max_size=6, unique=True))
    out = []
    for p in paths:
        kind = draw(st.sampled_from(['num', 'num', 'num', 'num', 'str', 'scalar', 'empty_chunked']))
        e = {'path': p, 'kind': kind, 'seed': draw(st.integers(0, 10**6))}
        if kind == 'num':
            nd = draw(st.integers(1, 3))
            e['shape'] = [draw(st.integers(1, 7)) for _ in range(nd)]
            e['dtype'] = draw(st.sampled_from(['float64', 'float32', 'int64', 'uint8']))
            lay = draw(st.sampled_from(['contiguous', 'chunked', 'chunked', 'gzip']))
            e['layout'] = lay
            if lay != 'contiguous':
                e['chunks'] = [draw(st.integers(1, s)) for s in e['shape']]
        if draw(st.integers(0, 2)) == 0:
            e['attrs'] = {'note': f'n{e["seed"] % 97}', 'k': e['seed'] % 13}
        out.append(e)
    return out


@st.composite
def sparse_util_cases(draw):
    """in-memory pointer arithmetic of utils/sparse_utils.py"""
    op = draw(st.sampled_from(['merge_csr', 'load_csr_chunk', 'load_csr', 'load_csc', 'stack_pieces', 'stack_pieces']))
    if op == 'stack_pieces':
        # amalgamate_csr_to_x called directly on piece files whose index arrays are stored in any integer type
        # wide enough for the piece itself; the stacked matrix may hold more entries than the narrow type can count
        # pieces of 1-8 rows each (so that a piece alone fits the narrow type while the running total need not)
        nc = draw(st.sampled_from([1, 3, 8, 16, 30, 30, 40]))
        rows = draw(st.lists(st.integers(1, 8), min_size=1, max_size=7))
        nr = sum(rows)
        cuts = [sum(rows[:i]) for i in range(1, len(rows))]
        narrow = draw(st.sampled_from(['uint8', 'int8', 'uint16', 'int16', 'mixed', 'mixed']))
        return {'kind': 'S', 'op': op, 'shape': [nr, nc], 'seed': draw(st.integers(0, 10**6)),
                'density': draw(st.sampled_from([0.0, 0.05, 0.3, 0.6, 0.9, 1.0, 1.0])),
                'dtype': draw(st.sampled_from(VALUE_DTYPES)), 'cuts': cuts,
                'idx_dtypes': [narrow if narrow != 'mixed' else
                               draw(st.sampled_from(['uint8', 'int8', 'uint16', 'int16', 'int32', 'int64', 'uint32']))
                               for _ in rows],
                'compression': draw(st.booleans())}
    x = draw(small_dense(max_rows=8, max_cols=7))
    nr, nc = len(x), len(x[0])
    spec = {'kind': 'S', 'op': op, 'x': x, 'dtype': draw(st.sampled_from(VALUE_DTYPES))}
    if op == 'merge_csr':
        n_cuts = draw(st.integers(0, min(3, nr - 1)))
        cuts = sorted(draw(st.lists(st.integers(1, nr - 1), min_size=n_cuts, max_size=n_cuts, unique=True))) if n_cuts else []
        spec['cuts'] = cuts
    else:
        r0 = draw(st.integers(0, nr - 1))
        spec['rows'] = [r0, draw(st.integers(r0 + 1, nr))]
        c0 = draw(st.integers(0, nc - 1))
        spec['cols'] = [c0, draw(st.integers(c0 + 1, nc))]
    return spec
