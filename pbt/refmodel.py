"""
Reference model of the hierarchical bootstrapped nearest-centroid vote,
written from the property statements and docs/algorithms/hierarchical_mapping.md,
independent of the implementation (pure numpy in extended precision).
"""
import numpy as np

from pbt import materialize, treemodel


def voting_tree(spec):
    """the tree dict actually used for voting under flatten / drop_level"""
    t = treemodel.Tree(spec['tree'])
    cfg = spec['cfg']
    if cfg.get('flatten'):
        return t.flattened()
    if cfg.get('drop_level') in t.h[:-1]:
        return t.dropped(cfg['drop_level'])
    return spec['tree']


def factor_at(cfg, parent):
    """bootstrap factor used at a parent node (None = root): per-level lookup if configured"""
    lk = cfg.get('bootstrap_factor_lookup')
    if lk:
        d = {k: v for k, v in lk}
        return float(d['None' if parent is None else parent[0]])
    return float(cfg['bootstrap_factor'])


def model_marker_genes(spec, vtree=None):
    """C08 reference: genes usable at each parent of the voting tree.
    returns dict key -> set of genes (single-child parents -> empty set)"""
    vt = treemodel.Tree(vtree or voting_tree(spec))
    Q = set(spec['query']['genes'])
    mm = spec['cfg']['min_markers']
    mk = spec['markers']
    if spec['cfg'].get('flatten'):
        allm = set()
        for k, v in mk.items():
            if k not in ('log', 'metadata'):
                allm |= set(v)
        mk = {'None': sorted(allm)}
    out = {}
    fallback = {}
    out['None'] = set(mk.get('None', [])) & Q
    fallback['None'] = 'own'
    for p in vt.all_parents()[1:]:
        key = f'{p[0]}/{p[1]}'
        kids = vt.children(p)
        if len(kids) < 2:
            out[key] = set()
            fallback[key] = 'single_child'
            continue
        cur = set(mk.get(key, []))
        how = 'own'
        if len(cur & Q) < mm:
            for a in vt.ancestors(*p):
                ak = f'{a[0]}/{a[1]}'
                if ak in mk:
                    cur |= set(mk[ak])
                    how = 'ancestor'
                if len(cur & Q) >= mm:
                    break
            if len(cur & Q) < mm:
                cur |= set(mk.get('None', []))
                how = 'root'
        out[key] = cur & Q
        fallback[key] = how
    return out, fallback


class VoteModel(object):
    def __init__(self, spec):
        self.spec = spec
        q = spec['query']
        x = materialize.expand_query(q)
        self.float32 = (x.dtype == np.float32)
        self.tol = 5e-5 if self.float32 else 1e-9
        norm = spec['cfg'].get('normalization', 'raw')
        xl = x.astype(np.longdouble)
        if norm == 'raw':
            rs = xl.sum(axis=1)
            rs = np.where(rs > 0, rs, 1)
            self.lq = np.log2(1 + 1e6 * xl / rs[:, None])
        else:
            self.lq = xl
        self.qcol = {g: i for i, g in enumerate(q['genes'])}
        ref = spec['ref']
        n_cells, sums = materialize.expand_ref(ref)
        self.rcol = {g: i for i, g in enumerate(ref['genes'])}
        self.mean = {}
        for i, leaf in enumerate(ref['leaves']):
            self.mean[leaf] = (sums[i].astype(np.longdouble) / max(1, int(n_cells[i])))
        self.cell_index = {str(c): i for i, c in enumerate(q['cells'])}

    @staticmethod
    def corr(a, b):
        a = a - a.mean()
        b = b - b.mean()
        na = np.sqrt((a * a).sum())
        nb = np.sqrt((b * b).sum())
        if na == 0:
            na = 1
        if nb == 0:
            nb = 1
        return float((a * b).sum() / (na * nb))

    def node(self, ci, vt, parent, genes, subsets):
        """expected vote census for cell index ci at `parent` of voting tree vt
        (a treemodel.Tree); genes = ordered gene names of the node's matrix;
        subsets = list of index lists into genes (one per iteration)"""
        cl = vt.child_level(parent)
        kids = vt.children(parent)
        l2c = {}
        for k in kids:
            for lf in vt.leaves_under(cl, k):
                l2c[lf] = k
        leaves = sorted(l2c)
        lo = {k: 0 for k in kids}
        hi = {k: 0 for k in kids}
        csum = {k: 0.0 for k in kids}
        ambiguous = False
        min_margin = np.inf
        qidx_all = np.array([self.qcol[g] for g in genes], dtype=int)
        ridx_all = np.array([self.rcol[g] for g in genes], dtype=int)
        min_rel_std = np.inf
        tol_used = self.tol
        for S in subsets:
            S = np.array(S, dtype=int)
            qv = self.lq[ci, qidx_all[S]]
            # conditioning of the correlation: for float32 input the rounding error of log2(CPM+1) (about
            # 1e-7 relative to the values) is amplified by max|v|/std(v) when the sub-vector is almost constant
            sd = float(np.std(qv))
            rel = sd / max(float(np.max(np.abs(qv))), 1e-300) if len(qv) else 0.0
            min_rel_std = min(min_rel_std, rel)
            tol_s = self.tol
            if self.float32 and rel > 0:
                tol_s = min(1e-2, self.tol * max(1.0, 0.1 / rel))
            tol_used = max(tol_used, tol_s)
            cs = {lf: self.corr(qv, self.mean[lf][ridx_all[S]]) for lf in leaves}
            mx = max(cs.values())
            adm = {l2c[lf] for lf in leaves if cs[lf] >= mx - tol_s}
            # margin between the best child and the best leaf of any other child
            for k in adm:
                hi[k] += 1
            if len(adm) == 1:
                k = next(iter(adm))
                lo[k] += 1
                csum[k] += mx
                others = [cs[lf] for lf in leaves if l2c[lf] != k]
                if others:
                    min_margin = min(min_margin, mx - max(others))
            else:
                ambiguous = True
        return {'lo': lo, 'hi': hi, 'csum': csum, 'ambiguous': ambiguous,
                'kids': kids, 'min_margin': float(min_margin), 'tol': float(tol_used),
                'min_rel_std': float(min_rel_std)}
