"""
Drive cell_type_mapper.cli.from_specified_markers.run_mapping with the full
config dict the argschema schema would have produced.
"""
import json
import os
import pathlib

from pbt.core import quiet


def full_config(d, paths, cfg, out_prefix='out', csv=True, hdf5=True, log_file=True, json_out=True):
    d = pathlib.Path(d)
    tmp = None
    if cfg.get('tmp_dir', True):
        tmp = d / cfg.get('tmp_name', 'scratch')
        if not cfg.get('tmp_no_create'):
            tmp.mkdir(exist_ok=True)
    outdir = pathlib.Path(cfg.get('out_dir') or d)
    outdir.mkdir(exist_ok=True, parents=True)
    c = dict(
        query_path=str(paths['query']),
        extended_result_path=str(outdir / f'{out_prefix}.json') if json_out else None,
        hdf5_result_path=str(outdir / f'{out_prefix}.h5') if hdf5 else None,
        csv_result_path=str(outdir / f'{out_prefix}.csv') if csv else None,
        summary_metadata_path=None, obsm_key=cfg.get('obsm_key'), obsm_clobber=False,
        extended_result_dir=None if tmp is not None else str(outdir),
        tmp_dir=str(tmp) if tmp is not None else None,
        drop_level=cfg.get('drop_level'), flatten=bool(cfg.get('flatten', False)),
        max_gb=cfg.get('max_gb', 1.0), cloud_safe=bool(cfg.get('cloud_safe', True)),
        map_to_ensembl=False,
        log_path=str(outdir / f'{out_prefix}.log') if log_file else None,
        precomputed_stats={'path': str(paths['stats'])},
        query_markers={'serialized_lookup': str(paths['markers'])},
        type_assignment=dict(
            bootstrap_iteration=int(cfg.get('bootstrap_iteration', 10)),
            bootstrap_factor=float(cfg.get('bootstrap_factor', 0.9)),
            bootstrap_factor_lookup=cfg.get('bootstrap_factor_lookup'),
            chunk_size=int(cfg.get('chunk_size', 3)),
            normalization=cfg.get('normalization', 'raw'),
            rng_seed=int(cfg.get('rng_seed', 5)),
            n_runners_up=int(cfg.get('n_runners_up', 2)),
            min_markers=int(cfg.get('min_markers', 3)),
            n_processors=int(cfg.get('n_processors', 2))))
    if cfg.get('csv_override'):
        c['csv_result_path'] = cfg['csv_override']
    if cfg.get('hdf5_override'):
        c['hdf5_result_path'] = cfg['hdf5_override']
    if cfg.get('json_override'):
        c['extended_result_path'] = cfg['json_override']
    return c


class MapOutcome(object):
    def __init__(self):
        self.error = None      # exception instance or None
        self.config = None
        self.out = None        # parsed extended JSON (if it exists)
        self.trace = None      # list of per-process event lists

    @property
    def ok(self):
        return self.error is None


def run(d, paths, cfg, trace=False, **kw):
    """run one mapping; never raises for errors of the mapper itself"""
    from cell_type_mapper.cli.from_specified_markers import run_mapping
    c = full_config(d, paths, cfg, **kw)
    o = MapOutcome()
    o.config = c
    tdir = None
    old = os.environ.get('CELL_TYPE_MAPPER_VERIF_TRACE')
    if trace:
        tdir = pathlib.Path(d) / f'trace_{kw.get("out_prefix", "out")}'
        tdir.mkdir(exist_ok=True)
        os.environ['CELL_TYPE_MAPPER_VERIF_TRACE'] = str(tdir)
    else:
        os.environ.pop('CELL_TYPE_MAPPER_VERIF_TRACE', None)
    old_limit = None
    if cfg.get('fd_headroom'):
        import resource
        old_limit = resource.getrlimit(resource.RLIMIT_NOFILE)
        n_open = len(os.listdir('/proc/self/fd'))
        resource.setrlimit(resource.RLIMIT_NOFILE, (min(old_limit[0], n_open + int(cfg['fd_headroom'])), old_limit[1]))
    try:
        with quiet():
            run_mapping(c, c['extended_result_path'], c['log_path'], c['hdf5_result_path'])
    except Exception as e:   # the mapper's own failure: an observation, not a harness error
        o.error = e
    finally:
        if old_limit is not None:
            import resource
            resource.setrlimit(resource.RLIMIT_NOFILE, old_limit)
        if old is None:
            os.environ.pop('CELL_TYPE_MAPPER_VERIF_TRACE', None)
        else:
            os.environ['CELL_TYPE_MAPPER_VERIF_TRACE'] = old
    p = pathlib.Path(c['extended_result_path']) if c['extended_result_path'] else None
    if p is not None and p.exists():
        try:
            o.out = json.loads(p.read_text())
        except Exception:
            o.out = None
    if tdir is not None:
        o.trace = []
        for f in sorted(tdir.iterdir()):
            o.trace.append([json.loads(l) for l in f.read_text().splitlines() if l.strip()])
    return o


def run_direct(d, paths, spec, use_buffer_dir=False, buffer_dir=None):
    """second driver: call run_type_assignment_on_h5ad directly (the orchestration of run_mapping -
    reading the tree, flatten/drop, marker cache - is replicated with the library's own public functions).
    With use_buffer_dir=False results travel through the multiprocessing.Manager list (completion order).
    returns (results or None, error or None)"""
    import h5py
    import numpy as np
    import pathlib
    from cell_type_mapper.taxonomy.taxonomy_tree import TaxonomyTree
    from cell_type_mapper.type_assignment.marker_cache_v2 import create_marker_cache_from_specified_markers
    from cell_type_mapper.type_assignment.election_runner import run_type_assignment_on_h5ad
    cfg = spec['cfg']
    d = pathlib.Path(d)
    try:
        with quiet():
            with h5py.File(paths['stats'], 'r') as f:
                tree = TaxonomyTree.from_str(serialized_dict=f['taxonomy_tree'][()].decode('utf-8'))
                ref_genes = json.loads(f['col_names'][()].decode('utf-8'))
            lookup = json.load(open(paths['markers']))
            if cfg.get('drop_level') is not None and cfg['drop_level'] in tree.hierarchy:
                tree = tree.drop_level(cfg['drop_level'])
            if cfg.get('flatten'):
                tree = tree.flatten()
                allm = set()
                for k in lookup:
                    allm |= set(lookup[k])
                lookup = {'None': sorted(allm)}
            cache = d / 'direct_marker_cache.h5'
            create_marker_cache_from_specified_markers(
                marker_lookup=lookup, reference_gene_names=ref_genes,
                query_gene_names=list(spec['query']['genes']), output_cache_path=cache,
                taxonomy_tree=tree, min_markers=cfg['min_markers'])
            tmp = d / 'direct_tmp'
            tmp.mkdir(exist_ok=True)
            buf = None
            if buffer_dir is not None:
                buf = pathlib.Path(buffer_dir)
            elif use_buffer_dir:
                buf = d / 'direct_buffer'
                buf.mkdir(exist_ok=True)
            if cfg.get('bootstrap_factor_lookup'):
                lk = {k: v for k, v in cfg['bootstrap_factor_lookup']}
            else:
                lk = {lv: cfg['bootstrap_factor'] for lv in tree.hierarchy[:-1]}
                lk['None'] = cfg['bootstrap_factor']
            res = run_type_assignment_on_h5ad(
                query_h5ad_path=paths['query'], precomputed_stats_path=paths['stats'],
                marker_gene_cache_path=cache, taxonomy_tree=tree,
                n_processors=cfg['n_processors'], chunk_size=cfg['chunk_size'],
                bootstrap_factor_lookup=lk, bootstrap_iteration=cfg['bootstrap_iteration'],
                rng=np.random.default_rng(cfg['rng_seed']), n_assignments=cfg['n_runners_up'] + 1,
                normalization=cfg.get('normalization', 'raw'), tmp_dir=str(tmp), log=None,
                max_gb=cfg.get('max_gb', 1.0), results_output_path=str(buf) if buf else None)
        return res, None
    except Exception as e:
        return None, e
