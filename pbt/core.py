"""
Runner shared by all property checks.

  python -m pbt.cli <ID> <quick|thorough> [--replay FILE]

* reads VERIF_SEED; every random choice is a pure function of it
* shards a property over worker processes (Hypothesis is single core)
* replays committed regressions first, then known findings, then generated search
* writes evidence/<ID>.json on every run
* exit 0 held / exit 1 + "VIOLATION property=<ID> replay=<path>" / exit 2 harness error
"""
import contextlib
import hashlib
import importlib
import io
import json
import os
import pathlib
import shutil
import subprocess
import sys
import tempfile
import time
import traceback
import warnings

VERIF_DIR = pathlib.Path(__file__).resolve().parent.parent
REPO_DIR = pathlib.Path(os.environ.get('VERIF_REPO', '/repo'))
N_CORES = int(os.environ.get('VERIF_CORES', '16'))
# mutant / scratch runs redirect their outputs so that committed evidence is not touched
OUT_DIR = pathlib.Path(os.environ.get('VERIF_OUT_DIR') or VERIF_DIR)


class Violation(Exception):
    """the property does not hold on this case"""
    def __init__(self, clause, detail=None):
        super().__init__(f'{clause}: {detail}')
        self.clause = clause
        self.detail = detail


class Inconclusive(Exception):
    """case could not be decided (time budget, tolerance band, ...)"""


class Case(object):
    """what a check returns for one evaluated case"""
    def __init__(self, nontrivial, classes=(), info=None, key=None):
        self.nontrivial = bool(nontrivial)
        self.classes = list(classes)
        self.info = info or {}
        self.key = key


def spec_hash(spec):
    return hashlib.sha256(
        json.dumps(spec, sort_keys=True, default=str).encode()).hexdigest()[:16]


def scratch_root():
    base = os.environ.get('VERIF_TMP') or os.environ.get('TMPDIR') or '/tmp'
    return base


def remove_at_exit(path):
    """delete a per-process fixture directory when the creating process exits (not in forked children)"""
    import atexit
    pid = os.getpid()

    def _rm():
        if os.getpid() == pid:
            shutil.rmtree(path, ignore_errors=True)
    atexit.register(_rm)


_SANDBOX_DEPTH = [0]


@contextlib.contextmanager
def sandbox(prefix='ctmv_'):
    """a fresh directory outside /repo and /verif; tempfile.tempdir is
    redirected inside it so the library's system-temp fall-backs are observed"""
    # The directory NAME is fixed per process (and nesting depth) and re-created for every case, so the very same
    # file paths recur with different contents from case to case within a shard process: a result that
    # depends on state the library carried over from an earlier call (a cache keyed by path, a module-level
    # table) then shows up as an ordinary oracle failure.
    _SANDBOX_DEPTH[0] += 1
    root = pathlib.Path(scratch_root()) / f'{prefix}p{os.getpid()}_d{_SANDBOX_DEPTH[0]}'
    shutil.rmtree(root, ignore_errors=True)
    root.mkdir(parents=True)
    old = tempfile.tempdir
    systmp = root / 'systmp'
    systmp.mkdir()
    tempfile.tempdir = str(systmp)
    try:
        yield root
    finally:
        tempfile.tempdir = old
        _SANDBOX_DEPTH[0] -= 1
        shutil.rmtree(root, ignore_errors=True)


@contextlib.contextmanager
def quiet():
    with warnings.catch_warnings():
        warnings.simplefilter('ignore')
        with contextlib.redirect_stdout(io.StringIO()), \
                contextlib.redirect_stderr(io.StringIO()):
            yield


def load_prop(pid):
    mod = importlib.import_module(f'pbt.props.{pid.lower()}')
    return mod


def load_known():
    p = VERIF_DIR / 'known_findings.json'
    if not p.exists():
        return {'known': [], 'fixed': []}
    return json.loads(p.read_text())


def known_for(pid):
    return [k for k in load_known().get('known', []) if k['property'] == pid]


def match_known(pid, spec, clause, mod):
    """return the id of the known finding this (spec, clause) belongs to"""
    for k in known_for(pid):
        if k.get('clause') and k['clause'] != clause:
            continue
        pred = getattr(mod, 'KNOWN_TRIGGERS', {}).get(k['trigger'])
        if pred is None:
            continue
        try:
            if pred(spec):
                return k['id']
        except Exception:
            continue
    return None


def eval_case(mod, spec):
    """run one spec through the property's oracle.
    returns ('ok', Case) | ('violation', clause, detail) | ('inconclusive', msg)
    Harness errors propagate as exceptions."""
    try:
        case = mod.check(spec)
        if case is None:
            case = Case(False)
        return ('ok', case)
    except Violation as v:
        return ('violation', v.clause, _short(v.detail))
    except Inconclusive as e:
        return ('inconclusive', str(e))


def _short(x, n=2000):
    s = x if isinstance(x, str) else json.dumps(x, default=str)
    return s if len(s) <= n else s[:n] + '...'


# ---------------------------------------------------------------- shard
def shard_main(argv):
    """python -m pbt.shard ID tier seed shard n_shards outfile"""
    pid, tier, seed, shard, n_shards, outfile = argv
    seed, shard, n_shards = int(seed), int(shard), int(n_shards)
    mod = load_prop(pid)
    out = {'evaluations': 0, 'nontrivial': [], 'classes': {}, 'samples': [],
           'violations': [], 'known_hits': {}, 'inconclusive': 0,
           'excluded': 0, 'enumerated': 0, 'enum_total': 0,
           'harness_error': None, 'info': {}}

    prev = {'spec': None, 'hist': []}

    def record(spec, res):
        out['evaluations'] += 1
        if res[0] == 'ok':
            case = res[1]
            if case.nontrivial:
                out['nontrivial'].append(case.key or spec_hash(spec))
            for c in case.classes:
                out['classes'][c] = out['classes'].get(c, 0) + 1
            for k, v in case.info.items():
                if isinstance(v, (int, float)):
                    out['info'][k] = out['info'].get(k, 0) + v
            if len(out['samples']) < 2 and (case.nontrivial or out['evaluations'] > 5):
                out['samples'].append(mod.sample_view(spec) if hasattr(mod, 'sample_view') else spec)
        elif res[0] == 'inconclusive':
            out['inconclusive'] += 1

    def flush():
        tmp = outfile + '.tmp'
        with open(tmp, 'w') as f:
            json.dump(out, f, default=str)
        os.replace(tmp, outfile)

    t_start = time.time()
    budget_s = float(os.environ.get('VERIF_SHARD_BUDGET_S', '0') or 0)
    try:
        # ---- enumerated part
        enum = getattr(mod, 'enumerate_specs', None)
        if enum is not None:
            specs = enum(tier)
            out['enum_total'] = len(specs)
            for i, spec in enumerate(specs):
                if i % n_shards != shard:
                    continue
                res = eval_case(mod, spec)
                out['enumerated'] += 1
                record(spec, res)
                if res[0] == 'violation':
                    kid = match_known(pid, spec, res[1], mod)
                    if kid:
                        out['known_hits'][kid] = out['known_hits'].get(kid, 0) + 1
                    else:
                        out['violations'].append({'spec': spec, 'clause': res[1], 'detail': res[2], 'prev_specs': list(prev['hist'])})
                        break
                prev['hist'] = (prev['hist'] + [spec])[-3:]
        # ---- generated part
        n_examples = mod.budget(tier)
        per = max(1, n_examples // n_shards) if n_examples else 0
        if per and not out['violations'] and hasattr(mod, 'strategy'):
            _run_hypothesis(mod, pid, tier, seed, shard, per, out, record, t_start, budget_s, prev)
        # ---- stateful part
        if hasattr(mod, 'run_stateful') and not out['violations']:
            mod.run_stateful(tier, seed, shard, n_shards, out)
        # ---- coverage-guided part (atheris / libFuzzer driving the same strategy and oracle)
        ath = getattr(mod, 'ATHERIS', None)
        if ath and tier in ath and shard < ath[tier].get('shards', 4) and not out['violations']:
            _run_atheris(mod, pid, tier, seed, shard, ath[tier], out, outfile)
    except Exception:
        out['harness_error'] = traceback.format_exc()
    out['wall_s'] = time.time() - t_start
    flush()


def _run_atheris(mod, pid, tier, seed, shard, conf, out, outfile):
    ofile = outfile + '.atheris.json'
    env = dict(os.environ)
    if conf.get('include'):
        env['VERIF_ATHERIS_INCLUDE'] = json.dumps(conf['include'])
    cmd = [sys.executable, '-m', 'pbt.fuzz', pid, tier, str(derive_seed(seed, shard) % (2**31 - 2) + 1), ofile,
           str(conf.get('seconds', 60)), str(conf.get('runs', 20000))]
    try:
        subprocess.run(cmd, env=env, cwd=str(VERIF_DIR), stdout=subprocess.DEVNULL, stderr=subprocess.DEVNULL,
                       timeout=conf.get('seconds', 60) * 3 + 120)
    except subprocess.TimeoutExpired:
        out['inconclusive'] += 1
    if not os.path.exists(ofile):
        out['classes']['atheris_no_result'] = out['classes'].get('atheris_no_result', 0) + 1
        return
    r = json.load(open(ofile))
    out['info']['atheris_execs'] = out['info'].get('atheris_execs', 0) + r.get('execs', 0)
    out['info']['atheris_nontrivial'] = out['info'].get('atheris_nontrivial', 0) + r.get('nontrivial', 0)
    out['evaluations'] += r.get('execs', 0)
    for c, n in r.get('classes', {}).items():
        out['classes']['atheris:' + c] = out['classes'].get('atheris:' + c, 0) + n
    v = r.get('violation')
    if v:
        res = eval_case(mod, v['spec'])     # re-check in a plain interpreter before reporting
        if res[0] == 'violation':
            out['violations'].append({'spec': v['spec'], 'clause': res[1], 'detail': res[2]})
        else:
            out['classes']['atheris_unreproduced'] = out['classes'].get('atheris_unreproduced', 0) + 1
    shutil.rmtree(ofile + '.corpus', ignore_errors=True)


def derive_seed(seed, shard):
    return int(hashlib.sha256(f'{seed}:{shard}'.encode()).hexdigest()[:12], 16)


def _run_hypothesis(mod, pid, tier, seed, shard, n, out, record, t_start, budget_s, prev=None):
    prev = prev if prev is not None else {'spec': None, 'hist': []}
    import hypothesis
    from hypothesis import given, settings, HealthCheck, Phase
    failures = []
    state = {'first_fail_t': None}
    shrink_budget = 45.0 if tier == 'quick' else 150.0

    @hypothesis.seed(derive_seed(seed, shard))
    @settings(max_examples=n, database=None, deadline=None,
              derandomize=False, report_multiple_bugs=False,
              suppress_health_check=list(HealthCheck),
              phases=[Phase.generate, Phase.shrink])
    @given(mod.strategy(tier))
    def test(spec):
        if state['first_fail_t'] is not None and \
                time.time() - state['first_fail_t'] > shrink_budget:
            return  # let the shrinker terminate with the smallest so far
        if state['first_fail_t'] is None and budget_s and \
                time.time() - t_start > budget_s:
            out['budget_hit'] = True
            return
        excl = getattr(mod, 'exclude', None)
        if excl is not None and excl(spec):
            out['excluded'] += 1
            return
        res = eval_case(mod, spec)
        if state['first_fail_t'] is None:
            record(spec, res)
        if res[0] == 'violation':
            kid = match_known(pid, spec, res[1], mod)
            if kid:
                out['known_hits'][kid] = out['known_hits'].get(kid, 0) + 1
                return
            if state['first_fail_t'] is None:
                state['first_fail_t'] = time.time()
            # the case evaluated just before is kept with the failure: a violation that needs state left by an
            # earlier call in the same process is replayed as the two-step history (previous case, this case)
            failures.append({'spec': spec, 'clause': res[1], 'detail': res[2], 'prev_specs': list(prev['hist'])})
            prev['hist'] = (prev['hist'] + [spec])[-3:]
            raise AssertionError(res[1])
        prev['hist'] = (prev['hist'] + [spec])[-3:]

    try:
        test()
    except BaseException as e:  # noqa
        if isinstance(e, KeyboardInterrupt):
            raise
        if not failures:
            raise
    if failures:
        # smallest failing spec seen (the shrinker's last success is usually it)
        best = min(failures, key=lambda f: len(json.dumps(f['spec'], default=str)))
        out['violations'].append(best)


# ---------------------------------------------------------------- main
def write_replay(pid, v):
    d = OUT_DIR / 'replays' / pid
    d.mkdir(parents=True, exist_ok=True)
    body = {'property': pid, 'clause': v['clause'], 'detail': v.get('detail'), 'spec': v['spec']}
    if v.get('prev_specs'):
        body['prev_specs'] = v['prev_specs']
    h = spec_hash(v['spec'])
    p = d / f'{h}.json'
    p.write_text(json.dumps(body, indent=1, default=str))
    return p


def run_replay(pid, path):
    mod = load_prop(pid)
    body = json.loads(pathlib.Path(path).read_text())
    spec = body['spec'] if 'spec' in body else body
    res = eval_case(mod, spec)
    if res[0] != 'violation' and isinstance(body, dict) and body.get('prev_specs'):
        # not reproducible on its own: replay the short history (the cases evaluated just before, then this one);
        # best effort - state left by cases further back is not recorded
        for ps in body['prev_specs']:
            try:
                eval_case(mod, ps)
            except Exception:
                pass
        res = eval_case(mod, spec)
    return res, spec


def main(argv=None):
    argv = list(sys.argv[1:] if argv is None else argv)
    if len(argv) < 2:
        print('usage: pbt.cli <ID> <quick|thorough> [--replay FILE]')
        return 2
    pid, tier = argv[0].upper(), argv[1]
    tier = os.environ.get('VERIF_TIER_OVERRIDE', tier)
    seed = int(os.environ.get('VERIF_SEED', '1') or 1)
    t0 = time.time()
    try:
        mod = load_prop(pid)
    except Exception:
        traceback.print_exc()
        return 2

    if '--replay' in argv:
        path = argv[argv.index('--replay') + 1]
        try:
            res, spec = run_replay(pid, path)
        except Exception:
            traceback.print_exc()
            return 2
        if res[0] == 'violation':
            print(f'clause: {res[1]}\ndetail: {res[2]}')
            kid = match_known(pid, spec, res[1], mod)
            if kid:
                print(f'KNOWN-FINDING: property={pid} {kid}')
                return 0
            print(f'VIOLATION property={pid} replay={path}')
            return 1
        print(f'replay {path}: {res[0]}')
        return 0

    violations = []
    known_lines = []
    harness_errors = []
    reg_count = 0
    # 1. regressions
    reg_dir = VERIF_DIR / 'regressions' / pid
    known_replays = {k.get('replay') for k in known_for(pid)}
    if reg_dir.is_dir():
        for p in sorted(reg_dir.glob('*.json')):
            rel = str(p.relative_to(VERIF_DIR))
            if rel in known_replays:
                continue
            try:
                res, spec = run_replay(pid, p)
            except Exception:
                harness_errors.append(f'regression {p}: {traceback.format_exc()}')
                continue
            reg_count += 1
            if res[0] == 'violation':
                violations.append({'replay': str(p), 'clause': res[1], 'detail': res[2]})
    # 2. known findings
    for k in known_for(pid):
        p = VERIF_DIR / k['replay']
        try:
            res, spec = run_replay(pid, p)
        except Exception:
            harness_errors.append(f'known {p}: {traceback.format_exc()}')
            continue
        if res[0] == 'violation':
            known_lines.append(f"KNOWN-FINDING: property={pid} {k['id']}: {k['what']}")
        else:
            known_lines.append(f"# known finding {k['id']} did not reproduce on this tree ({res[0]})")

    # 3. sharded search
    n_shards = min(N_CORES, getattr(mod, 'MAX_SHARDS', N_CORES))
    n_shards = int(os.environ.get('VERIF_SHARDS', n_shards))
    agg = {'evaluations': 0, 'nontrivial': set(), 'classes': {}, 'samples': [],
           'inconclusive': 0, 'excluded': 0, 'known_hits': {}, 'enumerated': 0,
           'enum_total': 0, 'info': {}, 'budget_hit': False}
    with tempfile.TemporaryDirectory(prefix='ctmv_run_', dir=scratch_root()) as rd:
        procs = []
        env = dict(os.environ)
        env['PYTHONPATH'] = f"{REPO_DIR}/src:{VERIF_DIR}" + (':' + str(VERIF_DIR / '.deps') if (VERIF_DIR / '.deps').exists() else '')
        env.setdefault('PYTHONHASHSEED', '0')
        env['CELL_TYPE_MAPPER_VERIF'] = '1'
        env['VERIF_TMP'] = rd
        env.setdefault('NUMEXPR_MAX_THREADS', '1')
        env.setdefault('OMP_NUM_THREADS', '1')
        env.setdefault('OPENBLAS_NUM_THREADS', '1')
        env.setdefault('MKL_NUM_THREADS', '1')
        limit = getattr(mod, 'TIME_LIMIT', {'quick': 600, 'thorough': 7200})[tier]
        if getattr(mod, 'SHARD_BUDGET', None):
            env['VERIF_SHARD_BUDGET_S'] = str(mod.SHARD_BUDGET[tier])
        for i in range(n_shards):
            of = os.path.join(rd, f'shard_{i}.json')
            lf = open(os.path.join(rd, f'shard_{i}.log'), 'w')
            p = subprocess.Popen(
                [sys.executable, '-m', 'pbt.shard', pid, tier, str(seed), str(i), str(n_shards), of],
                env=env, cwd=str(VERIF_DIR), stdout=lf, stderr=subprocess.STDOUT)
            procs.append((p, of, lf, i))
        deadline = time.time() + limit
        for p, of, lf, i in procs:
            try:
                p.wait(timeout=max(1, deadline - time.time()))
            except subprocess.TimeoutExpired:
                p.kill()
                p.wait()
                agg['inconclusive'] += 1
                harness_errors.append(f'shard {i} exceeded the {limit}s harness limit (inconclusive)') \
                    if os.environ.get('VERIF_STRICT_TIME') else None
                agg['budget_hit'] = True
            lf.close()
            if not os.path.exists(of):
                log = open(os.path.join(rd, f'shard_{i}.log')).read()[-3000:]
                if p.returncode not in (0, -9):
                    harness_errors.append(f'shard {i} died rc={p.returncode}: {log}')
                continue
            o = json.load(open(of))
            agg['evaluations'] += o['evaluations']
            agg['nontrivial'].update(o['nontrivial'])
            for c, n in o['classes'].items():
                agg['classes'][c] = agg['classes'].get(c, 0) + n
            for c, n in o['info'].items():
                agg['info'][c] = agg['info'].get(c, 0) + n
            for c, n in o['known_hits'].items():
                agg['known_hits'][c] = agg['known_hits'].get(c, 0) + n
            agg['samples'] += o['samples'][:1]
            agg['inconclusive'] += o['inconclusive']
            agg['excluded'] += o['excluded']
            agg['enumerated'] += o['enumerated']
            agg['enum_total'] = max(agg['enum_total'], o['enum_total'])
            agg['budget_hit'] = agg['budget_hit'] or bool(o.get('budget_hit'))
            if o['harness_error']:
                harness_errors.append(f'shard {i}: {o["harness_error"]}')
            for v in o['violations']:
                rp = write_replay(pid, v)
                violations.append({'replay': str(rp), 'clause': v['clause'], 'detail': v.get('detail')})

    wall = time.time() - t0
    rule = getattr(mod, 'RULE', '')
    level = getattr(mod, 'LEVEL', 'exploration')
    cov = {
        'evaluations': int(agg['evaluations'] + reg_count),
        'distinct_nontrivial': len(agg['nontrivial']),
        'rule': rule,
        'samples': agg['samples'][:4] or ['(no case evaluated)'],
        'class_histogram': dict(sorted(agg['classes'].items())),
        'counters': agg['info'],
        'regressions_replayed': reg_count,
        'inconclusive': agg['inconclusive'],
        'excluded_known_regions': agg['excluded'],
        'known_finding_hits': agg['known_hits'],
        'enumerated': agg['enumerated'],
        'enumerable_total': agg['enum_total'],
        'exhaustive': bool(agg['enum_total'] and agg['enumerated'] == agg['enum_total'] and getattr(mod, 'EXHAUSTIVE', {}).get(tier, False)),
        'time_budget_hit': agg['budget_hit'],
        'shards': n_shards,
    }
    ev = {
        'property_id': pid, 'tier': tier if tier in ('quick', 'thorough') else 'quick',
        'seed': seed, 'level': level, 'coverage': cov,
        'assumptions': getattr(mod, 'ASSUMPTIONS', []),
        'wall_s': round(wall, 2), 'violations': len(violations),
        'technique': getattr(mod, 'TECHNIQUE', ''),
    }
    (OUT_DIR / 'evidence').mkdir(exist_ok=True, parents=True)
    (OUT_DIR / 'evidence' / f'{pid}.json').write_text(json.dumps(ev, indent=1, default=str))

    for line in known_lines:
        print(line)
    print(f'{pid} {tier} seed={seed}: evaluations={cov["evaluations"]} '
          f'distinct_nontrivial={cov["distinct_nontrivial"]} enumerated={cov["enumerated"]}/{cov["enumerable_total"]} '
          f'inconclusive={cov["inconclusive"]} excluded={cov["excluded_known_regions"]} wall={wall:.1f}s')
    if cov['class_histogram']:
        print('classes:', json.dumps(cov['class_histogram']))
    if violations:
        for v in violations:
            print(f"clause: {v['clause']}  detail: {_short(v['detail'], 600)}")
            print(f"VIOLATION property={pid} replay={v['replay']}")
        return 1
    if harness_errors:
        hs = [h for h in harness_errors if h]
        print(f'HARNESS-ERROR ({len(hs)} reports; first shown):', hs[0][-3000:] if hs else '', file=sys.stderr)
        return 2
    if cov['evaluations'] == 0:
        print('HARNESS-ERROR: no case evaluated', file=sys.stderr)
        return 2
    return 0
