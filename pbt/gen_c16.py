"""
Generator and reference data for C16 (validation of an h5ad file).

The spec of a case is JSON-serialisable:

  {'species': 'mouse'|'human',
   'mapper': 'given'|'from_species'|'inferred',
   'genes':  [name, ...]                       # var index, in file order
   'cells':  [id, ...]                         # obs index, in file order
   'x':      {'dtype', 'family', 'seed', 'max', 'density', 'neg', 'spikes': [[i, j, value], ...]}
             or {'dtype', 'vals': [[...], ...]}   # explicit matrix
   'enc':    'csr'|'csc'|'dense',
   'layer':  None | name,
   'layout': 'default' | 'contiguous' | int (sparse 1-d chunk) | [r, c] (dense chunk),
   'round':  bool, 'out': 'path'|'dir', 'tmp': bool, 'expected_max': None|number, 'log': bool,
   'label':  free text (generator's intention; the oracle never reads it)}

Gene names are drawn from the REAL lookup tables shipped with the package (they are data, not
code under test) so that "known symbol" means what it means to a user.
"""
import re

import numpy as np
import hypothesis.strategies as st

from cell_type_mapper.data.mouse_gene_id_lookup import mouse_gene_id_lookup
from cell_type_mapper.data.human_gene_id_lookup import human_gene_id_lookup

TABLES = {'mouse': mouse_gene_id_lookup, 'human': human_gene_id_lookup}
OTHER = {'mouse': 'human', 'human': 'mouse'}
ENS_PREFIX = {'mouse': 'ENSMUSG', 'human': 'ENSG'}

# a *real* Ensembl gene identifier of the species (stable id: prefix + 11 digits, optional version)
STRICT_ENS = {s: re.compile(p + r'[0-9]{11}(\.[0-9]+)?') for s, p in ENS_PREFIX.items()}
# anything that merely looks like one (what the package's own unit tests accept: 'ENSF6');
# names in this grey zone are never generated and are "inconclusive" to the oracle
LOOSE_ENS = re.compile(r'ENS[A-Z]*[0-9]+(\.[0-9]+)?')

ALL_NAMES = {s: set(t.keys()) | set(t.values()) for s, t in TABLES.items()}
EVERY_NAME = ALL_NAMES['mouse'] | ALL_NAMES['human']


def _sym_pool(species):
    t = TABLES[species]
    other = ALL_NAMES[OTHER[species]]
    return [k for k in t if k and not k.startswith('ENS') and k not in other and k == k.strip()]


SYM = {s: _sym_pool(s) for s in TABLES}
SYM_DOT = {s: [k for k in SYM[s] if '.' in k] for s in TABLES}
SYM_ODD = {s: [k for k in SYM[s] if not re.fullmatch(r'[A-Za-z0-9_.\-]+', k) and not k.startswith('NCBIGene:')] for s in TABLES}
ENS_KNOWN = {s: sorted(set(TABLES[s].values())) for s in TABLES}


def _alias_pool(species):
    """pairs of distinct known symbols sharing one Ensembl id"""
    by_val = {}
    for k in SYM[species]:
        by_val.setdefault(TABLES[species][k], []).append(k)
    return [v[:2] for v in by_val.values() if len(v) >= 2]


ALIAS = {s: _alias_pool(s) for s in TABLES}


def _case_pool(species):
    """case variants of known symbols that are in neither table (unknown names by the statement)"""
    out = []
    for k in SYM[species][:6000]:
        for v in (k.lower(), k.upper(), k.swapcase()):
            if v != k and v not in EVERY_NAME and not v.startswith('ENS'):
                out.append(v)
                break
    return out


CASEVAR = {s: _case_pool(s) for s in TABLES}

LOWER_SYM = {s: {k.lower() for k in TABLES[s]} for s in TABLES}

UNICODE_UNK = [u for u in ['gène_β', 'zz unknown', 'zz,unknown', 'NA', 'nan', '0', '12345', 'unmapped_0', 'Gene-X(y)']
               if u not in EVERY_NAME]
SLASH_UNK = ['Gene-X/y', 'a/b/c']

# values aimed at the edges of the integer types (the value itself or its rounding crosses an edge)
BOUNDARY = [
    0.5, 1.5, 2.5, 126.5, 127.0, 127.4, 127.5, 128.0, 128.5, 254.5, 255.0, 255.4, 255.5, 255.6, 256.0, 256.5,
    32766.5, 32767.0, 32767.4, 32767.5, 32768.0, 32768.5, 65534.5, 65535.0, 65535.4, 65535.5, 65536.0, 65536.5,
    2147483646.5, 2147483647.0, 2147483647.5, 2147483648.0, 2147483648.5,
    4294967294.5, 4294967295.0, 4294967295.5, 4294967296.0, 4294967296.5, 4294967297.0,
    -0.4, -0.5, -0.6, -1.0, -1.5, -127.5, -128.0, -128.4, -128.5, -128.6, -129.0, -129.5,
    -32767.5, -32768.0, -32768.5, -32768.6, -32769.5,
    -2147483648.0, -2147483648.5, -2147483648.6, -2147483649.5, -4294967296.5,
]
BOUNDARY_SET = set(BOUNDARY)
FRACS = np.array([0.25, 0.5, 0.75, 0.3, 0.49, 0.51, 0.01, 0.99])

FLOAT_DTYPES = ['float32', 'float64']
INT_DTYPES = ['int32', 'int64', 'uint8', 'uint16', 'uint32']


# ----------------------------------------------------------------------------- expansion
def expand_x(xs, n, m):
    """-> numpy array (n x m) of the declared dtype; a pure function of the spec"""
    dt = np.dtype(xs['dtype'])
    if 'vals' in xs:
        return np.array(xs['vals'], dtype=dt).reshape(n, m)
    rng = np.random.default_rng(xs['seed'])
    base = rng.integers(0, int(xs['max']) + 1, (n, m)).astype(np.float64)
    frac_mask = rng.random((n, m)) < 0.5
    fr = rng.choice(FRACS, (n, m))
    sign = np.where(rng.random((n, m)) < 0.3, -1.0, 1.0)
    keep = rng.random((n, m)) < xs['density']
    if xs['family'] == 'fraction':
        base = base + fr * frac_mask
    if xs['family'] == 'near_int':
        # float round-off sized fractions (2.0000002): small integers plus ~3e-7
        base = np.minimum(base, 3.0) + 3.0e-7 * frac_mask
    if xs.get('neg'):
        base = base * sign
    base = base * keep
    for i, j, v in xs.get('spikes', []):
        base[int(i) % n, int(j) % m] = float(v)
    if dt.kind in 'iu':
        info = np.iinfo(dt)
        base = np.round(base)
        if info.min == 0:
            base = np.abs(base)
        base = np.clip(base, info.min, min(info.max, 2**53))
        out = np.zeros((n, m), dtype=dt)
        for i in range(n):
            for j in range(m):
                out[i, j] = int(base[i, j])
        return out
    return (base + 0.0).astype(dt)     # "+ 0.0" turns -0.0 into 0.0


# ----------------------------------------------------------------------------- names
KIND_SETS = {
    'mixed': ['ens_known', 'ens_rand', 'ensv_known', 'ensv_rand', 'sym', 'sym', 'sym_dot', 'unk_plain', 'unk_case',
              'unk_dot', 'unk_odd'],
    'all_ens': ['ens_known', 'ens_rand'],
    'ens_versioned': ['ens_known', 'ensv_known', 'ensv_rand'],
    'sym_only': ['sym', 'sym', 'sym_dot'],
    'ens_unk': ['ens_known', 'unk_plain', 'unk_case', 'unk_odd'],
    'sym_unk': ['sym', 'unk_plain', 'unk_case', 'unk_dot'],
}


def _rarely(n):
    """True with probability 1/n (st.integers is biased towards its bounds, sampled_from is not)"""
    return st.sampled_from([False] * (n - 1) + [True])


@st.composite
def one_name(draw, species, kind):
    t = TABLES[species]
    if kind == 'ens_known':
        return draw(st.sampled_from(ENS_KNOWN[species][:4000]))
    if kind == 'ens_rand':
        return f'{ENS_PREFIX[species]}{draw(st.integers(0, 10**11 - 1)):011d}'
    if kind == 'ensv_known':
        return f'{draw(st.sampled_from(ENS_KNOWN[species][:4000]))}.{draw(st.integers(0, 25))}'
    if kind == 'ensv_rand':
        return f'{ENS_PREFIX[species]}{draw(st.integers(0, 10**11 - 1)):011d}.{draw(st.integers(1, 9))}'
    if kind == 'sym':
        pool = SYM[species]
        return pool[draw(st.integers(0, len(pool) - 1))]
    if kind == 'sym_dot':
        pool = SYM_DOT[species]
        return pool[draw(st.integers(0, len(pool) - 1))]
    if kind == 'sym_odd':
        # known symbols with characters beyond [A-Za-z0-9_.-]: 'Gt(ROSA)26Sor' (mouse), 'THRA1/BTR' (human)
        pool = SYM_ODD[species] or SYM[species][:1]
        return pool[draw(st.integers(0, len(pool) - 1))]
    if kind == 'unk_plain':
        return f'zz_unknown_{draw(st.integers(0, 999))}'
    if kind == 'unk_case':
        pool = CASEVAR[species]
        return pool[draw(st.integers(0, len(pool) - 1))]
    if kind == 'unk_dot':
        pool = SYM[species]
        cand = pool[draw(st.integers(0, len(pool) - 1))] + f'.{draw(st.integers(1, 3))}'
        return cand if cand not in EVERY_NAME else 'zz_unknown_dot'
    if kind == 'unk_odd':
        return draw(st.sampled_from(UNICODE_UNK))
    if kind == 'unk_slash':
        return draw(st.sampled_from(SLASH_UNK))
    raise ValueError(kind)


def reference_mapping(species, name):
    """what the statement says happens to one gene name.
    -> ('ens', id without version) | ('sym', table id) | ('unk', None) | ('grey', None)"""
    if STRICT_ENS[species].fullmatch(name):
        return ('ens', name.split('.')[0])
    if name in TABLES[species]:
        if LOOSE_ENS.fullmatch(name):
            return ('grey', None)
        return ('sym', TABLES[species][name])
    if LOOSE_ENS.fullmatch(name) or name.startswith('ENS'):
        return ('grey', None)
    return ('unk', None)


def _dedupe(species, names):
    """keep the first of every name / every target identifier (positive cases need both unique)"""
    out, seen_n, seen_id = [], set(), set()
    for nm in names:
        kind, tgt = reference_mapping(species, nm)
        if nm in seen_n or (tgt is not None and tgt in seen_id):
            continue
        seen_n.add(nm)
        if tgt is not None:
            seen_id.add(tgt)
        out.append(nm)
    return out


def _is_known(species, nm):
    kind, tgt = reference_mapping(species, nm)
    return kind == 'sym' or (kind == 'ens' and tgt in ALL_NAMES[species])


FAULTS = ['dup_cell', 'dup_gene', 'empty_gene', 'collide_version', 'collide_two_versions', 'collide_sym_ens',
          'collide_alias']


@st.composite
def gene_lists(draw, species, mapper, max_genes=9):
    profile = draw(st.sampled_from(['mixed', 'mixed', 'mixed', 'mixed', 'all_ens', 'all_ens', 'ens_versioned',
                                    'sym_only', 'ens_unk', 'sym_unk']))
    n = draw(st.integers(1, max_genes))
    kinds = KIND_SETS[profile]
    names = []
    for _ in range(n):
        kind = draw(st.sampled_from(kinds))
        # rare: names with characters that are special to HDF5 / CSV ('THRA1/BTR', 'Gt(ROSA)26Sor', 'Gene-X/y')
        if kind == 'sym' and draw(_rarely(25)):
            kind = 'sym_odd'
        elif kind == 'unk_odd' and draw(_rarely(8)):
            kind = 'unk_slash'
        names.append(draw(one_name(species, kind)))
    names = _dedupe(species, names)
    # input-domain rule: >=1 Ensembl id or known symbol; with an inferred mapper >=1 *known* name
    need_known = mapper == 'inferred'
    ok = any(_is_known(species, nm) if need_known else reference_mapping(species, nm)[0] in ('ens', 'sym') for nm in names)
    if not ok:
        k = 'ens_known' if profile in ('all_ens', 'ens_versioned', 'ens_unk') else 'sym'
        extra = draw(one_name(species, k))
        pos = draw(st.integers(0, len(names)))
        names = _dedupe(species, names[:pos] + [extra] + names[pos:])
        if not any(_is_known(species, nm) for nm in names):     # the extra was dropped as a duplicate target
            names = [extra]
    return profile, names


@st.composite
def cell_ids(draw, n):
    scheme = draw(st.sampled_from(['c', 'c', 'num', 'uni', 'bar']))
    if scheme == 'c':
        cells = [f'cell_{i}' for i in range(n)]
    elif scheme == 'num':
        base = draw(st.integers(0, 1000))
        cells = [str(base + 3 * i) for i in range(n)]
    elif scheme == 'uni':
        cells = [f'célula_{i}β' for i in range(n)]
    else:
        cells = [f'AAACCTG{i:03d}-1' for i in range(n)]
    if draw(st.booleans()):
        cells = list(draw(st.permutations(cells)))
    return cells


@st.composite
def x_specs(draw, want=None):
    kind = want or draw(st.sampled_from(['fraction', 'fraction', 'boundary', 'boundary', 'int_float', 'int']))
    neg = draw(st.integers(0, 3)) == 0
    mx = draw(st.sampled_from([3, 100, 300, 300, 40000, 70000]))
    dens = draw(st.sampled_from([0.0, 0.3, 0.3, 0.5, 0.7, 0.7, 0.7, 1.0, 1.0, 1.0]))
    seed = draw(st.integers(0, 2**31 - 1))
    if kind == 'int':
        dtype = draw(st.sampled_from(INT_DTYPES))
        fam = 'int_valued'
    else:
        dtype = draw(st.sampled_from(['float32', 'float64', 'float64']))
        fam = 'fraction' if kind == 'fraction' or (kind == 'boundary' and draw(st.booleans())) else 'int_valued'
        if kind == 'fraction' and draw(st.integers(0, 5)) == 0:
            fam = 'near_int'
    spikes = []
    if kind == 'boundary' or draw(st.integers(0, 4)) == 0:
        k = draw(st.integers(1, 3))
        pool = BOUNDARY if neg or draw(st.integers(0, 5)) == 0 else [b for b in BOUNDARY if b >= 0]
        for _ in range(k):
            spikes.append([draw(st.integers(0, 9)), draw(st.integers(0, 9)), draw(st.sampled_from(pool))])
    return {'dtype': dtype, 'family': fam, 'seed': seed, 'max': mx, 'density': dens, 'neg': neg, 'spikes': spikes}


@st.composite
def layouts(draw, enc):
    if enc == 'dense':
        k = draw(st.integers(0, 2))
        if k == 0:
            return 'default'
        return [draw(st.integers(1, 4)), draw(st.integers(1, 4))]
    k = draw(st.sampled_from(['default'] * 4 + ['chunked'] * 7 + ['contiguous']))
    if k != 'chunked':
        return k
    return draw(st.integers(1, 6))


def _apply_fault(draw, fault, species, genes, cells):
    t = TABLES[species]
    if fault == 'dup_cell':
        if len(cells) < 2:
            cells = cells + [cells[0]]
        else:
            a = draw(st.integers(0, len(cells) - 1))
            b = draw(st.integers(0, len(cells) - 2))
            b = b if b < a else b + 1
            cells = list(cells)
            cells[b] = cells[a]
    elif fault == 'dup_gene':
        a = draw(st.integers(0, len(genes) - 1))
        pos = draw(st.integers(0, len(genes)))
        genes = genes[:pos] + [genes[a]] + genes[pos:]
    elif fault == 'empty_gene':
        pos = draw(st.integers(0, len(genes)))
        genes = genes[:pos] + [''] + genes[pos:]
    else:
        pos = draw(st.integers(0, len(genes)))
        if fault == 'collide_version':
            e = draw(one_name(species, 'ens_known'))
            pair = [e, f'{e}.{draw(st.integers(1, 9))}']
        elif fault == 'collide_two_versions':
            e = draw(one_name(species, 'ens_rand'))
            pair = [f'{e}.1', f'{e}.2']
        elif fault == 'collide_sym_ens':
            s = draw(one_name(species, 'sym'))
            pair = [s, t[s]]
        else:
            pool = ALIAS[species]
            pair = list(pool[draw(st.integers(0, len(pool) - 1))])
        if draw(st.booleans()):
            pair = pair[::-1]
        tg = {reference_mapping(species, p)[1] for p in pair}
        genes = [g for g in genes if g not in pair and reference_mapping(species, g)[1] not in tg]
        pos = min(pos, len(genes))
        pos2 = draw(st.integers(pos, len(genes)))
        genes = genes[:pos] + [pair[0]] + genes[pos:pos2] + [pair[1]] + genes[pos2:]
    return genes, cells


@st.composite
def cases(draw, tier='quick'):
    species = draw(st.sampled_from(['mouse', 'mouse', 'human']))
    mapper = draw(st.sampled_from(['given', 'given', 'inferred', 'inferred', 'from_species']))
    profile, genes = draw(gene_lists(species, mapper))
    n_cells = draw(st.integers(1, 8))
    cells = draw(cell_ids(n_cells))
    fault = draw(st.sampled_from(FAULTS)) if draw(_rarely(6)) else None
    if fault is not None:
        genes, cells = _apply_fault(draw, fault, species, genes, cells)
    enc = draw(st.sampled_from(['csr', 'csc', 'dense']))
    # "nothing to do" needs: X, no renaming, no rounding -> steer the all-Ensembl profile towards it
    want = None
    if profile == 'all_ens' and draw(st.booleans()):
        want = draw(st.sampled_from(['int_float', 'int', 'fraction']))
    x = draw(x_specs(want))
    layer = draw(st.sampled_from([None, None, None, 'counts', 'raw counts']))
    if profile == 'all_ens' and draw(st.booleans()):
        layer = None
    rnd = draw(st.sampled_from([True, True, False]))
    return {
        'species': species, 'mapper': mapper, 'genes': list(genes), 'cells': list(cells),
        'x': x, 'enc': enc, 'layer': layer, 'layout': draw(layouts(enc)),
        'round': rnd, 'out': draw(st.sampled_from(['path', 'dir'])), 'tmp': draw(st.booleans()),
        'expected_max': draw(st.sampled_from([20, 20, None])), 'log': draw(st.integers(0, 3)) == 0,
        'label': f'{profile}/{fault}',
        # one GeneIdMapper object used for several files in a row (the cases of a shard process share it)
        'shared_mapper': mapper != 'inferred' and draw(st.booleans()),
        'obs_index_name': draw(st.sampled_from([None, None, None, 'cell_label'])),
        'var_index_name': draw(st.sampled_from([None, None, None, 'gene_identifier', 'gene_symbol'])),
    }


# ----------------------------------------------------------------------------- aimed grid
def aimed_specs(tier):
    """one boundary value as THE extreme of a small matrix, for every boundary, encoding and float type.
    deterministic; the spike's position rotates so that it falls in the first / a later HDF5 chunk"""
    out = []
    genes = {'mouse': ['Xkr4', 'ENSMUSG00000025900', 'zz_unknown_1', 'ENSMUSG00000033845.7', 'xkr4'],
             'human': ['A1BG', 'ENSG00000175899', 'zz_unknown_1', 'ENSG00000148584.15', 'a1bg']}
    k = 0
    for dtype in ['float64', 'float32']:
        for b in BOUNDARY:
            if tier == 'quick' and dtype == 'float32' and abs(b) < 2.0**31 - 2:
                continue        # float32 cannot tell these from their float64 neighbours in an interesting way
            for enc in ('csr', 'csc', 'dense'):
                layer_opts = [None, 'counts'] if tier != 'quick' else [None if k % 2 == 0 else 'counts']
                for layer in layer_opts:
                    lay_opts = ['default', 'chunked'] if tier != 'quick' else ['default' if k % 3 else 'chunked']
                    for lay in lay_opts:
                        n, m = 3, 5
                        pos = k % (n * m)
                        neg = b < 0
                        # background: small values, some fractional so that rounding is always needed
                        spikes = [[pos // m, pos % m, b]]
                        bg = (pos + 7) % (n * m)
                        spikes.append([bg // m, bg % m, 1.5 if not neg else -1.5])
                        layout = 'default' if lay == 'default' else ([1 + k % 2, 2] if enc == 'dense' else 2 + k % 3)
                        species = 'mouse' if k % 4 else 'human'
                        out.append({
                            'species': species, 'mapper': ['given', 'inferred', 'from_species'][k % 3],
                            'genes': genes[species], 'cells': [f'cell_{i}' for i in range(n)],
                            'x': {'dtype': dtype, 'family': 'int_valued', 'seed': k, 'max': 3, 'density': 0.8,
                                  'neg': False, 'spikes': spikes},
                            'enc': enc, 'layer': layer, 'layout': layout, 'round': True,
                            'out': 'path' if k % 2 else 'dir', 'tmp': bool(k % 5), 'expected_max': 20,
                            'log': False, 'label': f'aimed/{b}'})
                        k += 1
    return out


def fixed_specs():
    """deterministic cases for every rejection reason and for "nothing to do" (both tiers)"""
    out = []
    k = 0
    for species in ('mouse', 'human'):
        t = TABLES[species]
        sym = SYM[species][3]
        sym2 = SYM[species][40]
        ens = ENS_KNOWN[species][5]
        if t[sym] == ens or t[sym2] == ens or t[sym] == t[sym2]:
            raise RuntimeError('fixed_specs: pick other names')
        rnd = f'{ENS_PREFIX[species]}99999999999'
        alias = list(ALIAS[species][0])
        plans = {
            'dup_cell': ([sym, ens], ['c0', 'c1', 'c0']),
            'dup_gene': ([sym, ens, sym], None),
            'dup_gene_ens': ([ens, sym, ens], None),
            'empty_gene': ([sym, '', ens], None),
            'collide_version': ([ens, sym, ens + '.3'], None),
            'collide_two_versions': ([rnd + '.1', sym, rnd + '.2'], None),
            'collide_sym_ens': ([t[sym], sym2, sym], None),
            'collide_alias': ([alias[0], ens, alias[1]] if t[alias[0]] != ens else alias, None),
        }
        for name, (genes, cells) in plans.items():
            for mapper in ('given', 'inferred', 'from_species'):
                cells_ = cells or ['c0', 'c1']
                out.append({
                    'species': species, 'mapper': mapper, 'genes': genes, 'cells': cells_,
                    'x': {'dtype': ['float32', 'int32', 'float64'][k % 3], 'family': 'fraction', 'seed': k, 'max': 100,
                          'density': 1.0, 'neg': False, 'spikes': []},
                    'enc': ['csr', 'csc', 'dense'][k % 3], 'layer': [None, 'counts'][k % 2], 'layout': 'default',
                    'round': bool(k % 4), 'out': ['path', 'dir'][k % 2], 'tmp': bool(k % 3), 'expected_max': 20,
                    'log': k % 5 == 0, 'label': f'fixed/{name}'})
                k += 1
        # nothing to do: Ensembl ids without version, data in X, no rounding needed (or not requested)
        for enc in ('csr', 'csc', 'dense'):
            for xkind, rnd_flag in (('int', True), ('int_float', True), ('fraction', False)):
                x = {'dtype': 'uint16' if xkind == 'int' else 'float32', 'family': 'fraction' if xkind == 'fraction' else 'int_valued',
                     'seed': k, 'max': 300, 'density': 0.8, 'neg': False, 'spikes': [[0, 0, 255.0]]}
                out.append({
                    'species': species, 'mapper': ['given', 'inferred', 'from_species'][k % 3], 'genes': [ens, rnd, ENS_KNOWN[species][9]],
                    'cells': ['c0', 'c1', 'c2'], 'x': x, 'enc': enc, 'layer': None,
                    'layout': 'default' if k % 2 else ([2, 2] if enc == 'dense' else 2),
                    'round': rnd_flag, 'out': ['path', 'dir'][k % 2], 'tmp': bool(k % 3), 'expected_max': [20, None][k % 2],
                    'log': False, 'label': 'fixed/nothing_to_do'})
                k += 1
    return out
