"""
Generated reference datasets and thin wrappers around the library's own stages
(statistics, reference markers, p-value mask, mask->markers, query marker selection,
parallel transposition), used by the composition / scheduling / fault / history checks.
"""
import json
import pathlib

import h5py
import hypothesis.strategies as st
import numpy as np

from pbt import gen, materialize, treemodel
from pbt.core import quiet


# ------------------------------------------------------------------ reference dataset
@st.composite
def ref_dataset_specs(draw, max_levels=3, max_leaves=7, min_levels=1, min_leaves=2,
                      n_genes=None, cells_per=None, allow_odd=False):
    """separable clusters by construction (recipe of DESIGN 1.1 'Reference cells')"""
    tree = draw(gen.trees(max_levels=max_levels, max_leaves=max_leaves, min_levels=min_levels,
                          allow_odd=allow_odd, mappers=False, min_leaves=min_leaves))
    return {
        'tree': tree,
        'n_genes': n_genes or draw(st.integers(16, 30)),
        'cells_per': cells_per or draw(st.integers(10, 14)),
        'seed': draw(st.integers(0, 2**31 - 1)),
        'dtype': draw(st.sampled_from(['float32', 'float64', 'int32'])),
        'enc': draw(st.sampled_from(['csr', 'csc', 'dense'])),
        'shuffle': draw(st.booleans()),
        'family': draw(st.sampled_from(['generic', 'generic', 'nested'])),
        'obs_index_name': draw(st.sampled_from([None, None, None, 'cell_label'])),
        'var_index_name': draw(st.sampled_from([None, None, None, 'gene_identifier'])),
    }


def expand_ref_dataset(rs):
    """-> (x [cells x genes], obs rows list of dict level->label, genes, cell ids, profiles{leaf: vector})"""
    rng = np.random.default_rng(rs['seed'])
    t = treemodel.Tree(rs['tree'])
    ng = rs['n_genes']
    leaves = sorted(t.leaves())
    prof = {}
    prev = None
    for k, lf in enumerate(leaves):
        p = (rng.random(ng) < 0.35) * rng.integers(50, 400, ng)
        if rs.get('family') == 'nested' and prev is not None and k % 2 == 1:
            # every second leaf expresses everything its predecessor does plus some more genes:
            # that pair has markers in one direction only
            extra = (rng.random(ng) < 0.3) * rng.integers(50, 400, ng)
            p = np.where(prof[prev] > 0, prof[prev], extra)
        prof[lf] = p
        prev = lf
    rows, X = [], []
    for lf in leaves:
        path = t.path_of_leaf(lf)
        for _ in range(rs['cells_per']):
            rows.append({lv: path[lv] for lv in t.h})
            X.append(rng.poisson(prof[lf] * rng.uniform(.8, 1.2) + 0.3))
    X = np.array(X)
    if rs.get('shuffle', True):
        perm = rng.permutation(len(rows))
        X = X[perm]
        rows = [rows[i] for i in perm]
    X = X.astype(np.dtype(rs['dtype']))
    genes = [f'g{i}' for i in range(ng)]
    cells = [f'r{i}' for i in range(len(rows))]
    return X, rows, genes, cells, prof


def write_ref_h5ad(path, rs):
    X, rows, genes, cells, _ = expand_ref_dataset(rs)
    h = rs['tree']['hierarchy']
    obs_cols = {lv: [r[lv] for r in rows] for lv in h}
    materialize.write_h5ad(path, X, cells, genes, enc=rs.get('enc', 'csr'), obs_cols=obs_cols,
                           obs_index_name=rs.get('obs_index_name'), var_index_name=rs.get('var_index_name'))
    return path


# ------------------------------------------------------------------ stages
def run_stats(ref_h5ad, hierarchy, out, tmp_dir, n_processors=2, rows_at_a_time=7, normalization='raw'):
    from cell_type_mapper.diff_exp.precompute_from_anndata import precompute_summary_stats_from_h5ad
    with quiet():
        precompute_summary_stats_from_h5ad(
            data_path=ref_h5ad, column_hierarchy=list(hierarchy), taxonomy_tree=None,
            output_path=out, rows_at_a_time=rows_at_a_time, normalization=normalization,
            tmp_dir=str(tmp_dir), n_processors=n_processors)
    return out


def tree_of_stats(stats):
    from cell_type_mapper.taxonomy.taxonomy_tree import TaxonomyTree
    with quiet():
        return TaxonomyTree.from_precomputed_stats(stats)


def run_refmarkers(stats, out, tmp_dir, n_processors=2, n_valid=5, max_gb=1, **kw):
    from cell_type_mapper.diff_exp.markers import find_markers_for_all_taxonomy_pairs
    with quiet():
        find_markers_for_all_taxonomy_pairs(
            precomputed_stats_path=stats, taxonomy_tree=tree_of_stats(stats), output_path=out,
            n_processors=n_processors, tmp_dir=str(tmp_dir), max_gb=max_gb, n_valid=n_valid, **kw)
    return out


def run_pmask(stats, out, tmp_dir, n_processors=2, n_per=8, **kw):
    from cell_type_mapper.diff_exp.p_value_mask import create_p_value_mask_file
    with quiet():
        create_p_value_mask_file(precomputed_stats_path=stats, dst_path=out, n_processors=n_processors,
                                 tmp_dir=str(tmp_dir), n_per=n_per, **kw)
    return out


def run_pmask_markers(stats, pmask, out, tmp_dir, n_processors=2, n_valid=5, max_gb=1, **kw):
    from cell_type_mapper.diff_exp.p_value_markers import find_markers_for_all_taxonomy_pairs_from_p_mask
    with quiet():
        find_markers_for_all_taxonomy_pairs_from_p_mask(
            precomputed_stats_path=stats, p_value_mask_path=pmask, output_path=out,
            n_processors=n_processors, tmp_dir=str(tmp_dir), max_gb=max_gb, n_valid=n_valid, **kw)
    return out


def run_query_markers(refm, query_genes, stats, tmp_dir, n_processors=2, n_per_utility=2, behemoth_cutoff=10000000):
    """-> lookup dict (without the 'log' key)"""
    from cell_type_mapper.type_assignment.marker_cache_v2 import create_raw_marker_gene_lookup
    with quiet():
        lk = create_raw_marker_gene_lookup(
            input_cache_path=refm, query_gene_names=list(query_genes), taxonomy_tree=tree_of_stats(stats),
            n_per_utility=n_per_utility, n_processors=n_processors, behemoth_cutoff=behemoth_cutoff,
            tmp_dir=str(tmp_dir))
    lk.pop('log', None)
    return lk


def run_transpose(h5_path, indices_tag, indptr_tag, data_tag, indices_max, out, tmp_dir, n_processors=3, max_gb=1):
    from cell_type_mapper.utils.csc_to_csr_parallel import transpose_sparse_matrix_on_disk_v2
    with quiet():
        transpose_sparse_matrix_on_disk_v2(
            h5_path=h5_path, indices_tag=indices_tag, indptr_tag=indptr_tag, data_tag=data_tag,
            indices_max=indices_max, max_gb=max_gb, output_path=out, tmp_dir=str(tmp_dir),
            n_processors=n_processors, uint_ok=True)
    return out


# ------------------------------------------------------------------ canonical digests
def h5_content(path, skip=('metadata',)):
    """dict dataset name -> (dtype str, shape, bytes) ; JSON datasets parsed, 'metadata' keys dropped"""
    out = {}

    def visit(name, obj):
        if isinstance(obj, h5py.Dataset):
            base = name.split('/')[-1]
            if base in skip:
                return
            v = obj[()]
            if isinstance(v, bytes):
                try:
                    j = json.loads(v.decode('utf-8'))
                    if isinstance(j, dict):
                        j.pop('metadata', None)
                    out[name] = ('json', json.dumps(j, sort_keys=False))
                except Exception:
                    out[name] = ('bytes', v.hex())
            else:
                a = np.ascontiguousarray(v)
                if a.dtype == object:
                    # variable-length strings: compare the strings, not the object pointers
                    flat = [x.decode('utf-8') if isinstance(x, bytes) else str(x) for x in a.ravel().tolist()]
                    out[name] = ('str', list(a.shape), json.dumps(flat))
                elif np.issubdtype(a.dtype, np.integer):
                    # integer datasets are compared by value: the storage width chosen for an index
                    # array (uint8 ... int64) is not part of the result
                    a = a.astype(np.int64)
                    out[name] = ('int', list(a.shape), a.tobytes().hex())
                else:
                    out[name] = (str(a.dtype), list(a.shape), a.tobytes().hex())
    with h5py.File(path, 'r') as f:
        f.visititems(visit)
    return out
