"""
Own the schedule of, and inject faults into, the worker processes of the
library's parallel stages without touching the repository.

All parallel stages create workers with `multiprocessing.Process(target=...)`
looked up at call time. Under the fork start method the harness replaces
`multiprocessing.Process` (in the harness process only) by a subclass that numbers
workers in dispatch order and follows a plan inherited through fork:

  plan[i] = {'delay': seconds}                       sleep before running the target
  plan[i] = {'fault': 'kill'|'term'|'exit'|'raise',
             'point': 'before'|'mid'|'after', 'at': k}

'mid' fires at the k-th Python call event inside the package (sys.setprofile),
a deterministic crash point. Fault delivery is confirmed by a marker file that the
child drops just before dying; completion stamps record the realised order.
"""
import contextlib
import multiprocessing
import os
import pathlib
import signal
import sys
import time

_ORIG = multiprocessing.Process
_STATE = {'plan': {}, 'counter': 0, 'dir': None, 'count_events': False, 'all_files': False}


def _pkg_dir():
    import cell_type_mapper
    return os.path.dirname(cell_type_mapper.__file__)


class ControlledProcess(_ORIG):
    def __init__(self, *a, **k):
        super().__init__(*a, **k)
        self._verif_index = _STATE['counter']
        _STATE['counter'] += 1

    def run(self):
        i = self._verif_index
        plan = _STATE['plan'].get(i) or _STATE['plan'].get(str(i)) or {}
        mdir = _STATE['dir']
        pkg = _pkg_dir()
        all_files = _STATE['all_files']

        def mark(name):
            if mdir is not None:
                with open(os.path.join(mdir, name), 'w') as f:
                    f.write(str(time.monotonic_ns()))

        def die():
            sys.setprofile(None)
            f = plan['fault']
            mark(f'fault_{i}')
            if f == 'kill':
                os.kill(os.getpid(), signal.SIGKILL)
                time.sleep(5)
            if f == 'term':
                # a polite termination request (as a batch scheduler or `kill` sends): a worker that installed a
                # handler and carries on has not failed - then the fault counts as not delivered ('survived')
                os.kill(os.getpid(), signal.SIGTERM)
                time.sleep(5)
                mark(f'survived_{i}')
                return
            if f == 'exit':
                os._exit(3)
            raise RuntimeError('injected worker failure')

        if plan.get('delay'):
            time.sleep(float(plan['delay']))
        if plan.get('point') == 'before':
            die()
        n = [0]
        if plan.get('point') == 'mid' or _STATE['count_events']:
            at = plan.get('at') if plan.get('point') == 'mid' else None

            def prof(frame, event, arg):
                if event == 'call' and (all_files or frame.f_code.co_filename.startswith(pkg)):
                    n[0] += 1
                    if at is not None and n[0] == at:
                        die()
            sys.setprofile(prof)
        try:
            super().run()
        finally:
            sys.setprofile(None)
        if _STATE['count_events'] and mdir is not None:
            with open(os.path.join(mdir, f'count_{i}'), 'w') as f:
                f.write(str(n[0]))
        if plan.get('point') == 'after':
            die()
        mark(f'done_{i}')


@contextlib.contextmanager
def controlled(plan=None, marker_dir=None, count_events=False, all_files=False):
    """within the block, every multiprocessing.Process created by the library is controlled"""
    _STATE['plan'] = dict(plan or {})
    _STATE['counter'] = 0
    _STATE['dir'] = str(marker_dir) if marker_dir is not None else None
    _STATE['count_events'] = count_events
    _STATE['all_files'] = all_files
    multiprocessing.Process = ControlledProcess
    try:
        yield _STATE
    finally:
        multiprocessing.Process = _ORIG
        _STATE['plan'] = {}


def n_dispatched():
    return _STATE['counter']


def read_markers(marker_dir):
    """-> dict(faults=set of worker indices whose fault was delivered,
               done=list of worker indices in completion order,
               counts={i: n call events})"""
    d = pathlib.Path(marker_dir)
    faults, done, counts = set(), [], {}
    survived = set()
    for p in d.iterdir():
        nm = p.name
        if nm.startswith('survived_'):
            survived.add(int(nm[9:]))
    for p in d.iterdir():
        nm = p.name
        if nm.startswith('fault_'):
            if int(nm[6:]) not in survived:
                faults.add(int(nm[6:]))
        elif nm.startswith('done_'):
            done.append((int(p.read_text() or 0), int(nm[5:])))
        elif nm.startswith('count_'):
            counts[int(nm[6:])] = int(p.read_text() or 0)
    return {'faults': faults, 'done': [i for _, i in sorted(done)], 'counts': counts}
