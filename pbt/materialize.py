"""
Deterministic expansion of specs into arrays and files.
"""
import json
import pathlib

import anndata
import h5py
import numpy as np
import pandas as pd
import scipy.sparse as sp


# ------------------------------------------------------------------ expansion
def expand_ref(ref):
    """-> (n_cells per leaf [in ref['leaves'] order], sum matrix [leaf x gene in ref['genes'] order])"""
    if 'n_cells' in ref and 'sum' in ref:
        return np.array(ref['n_cells'], dtype=np.int64), np.array(ref['sum'], dtype=np.float64)
    rng = np.random.default_rng(ref['seed'])
    nl, ng = len(ref['leaves']), len(ref['genes'])
    n_cells = rng.integers(1, ref.get('max_cells', 5) + 1, nl)
    mean = rng.random((nl, ng)) * 8.0
    fam = ref.get('family', 'generic')
    if fam == 'identical_pair' and nl >= 2:
        mean[1] = mean[0]
    elif fam == 'affine_pair' and nl >= 2:
        mean[1] = 0.5 * mean[0] + 1.0
    elif fam == 'constant' and nl >= 1:
        mean[0] = 3.0
    elif fam == 'zero_gene':
        mean[:, 0] = 0.0
    elif fam == 'empty_leaf' and nl >= 2:
        # a leaf of the taxonomy without any reference cell: its row of the statistics file is all zero
        n_cells[int(ref['seed']) % nl] = 0
    sums = mean * n_cells[:, None]
    return n_cells.astype(np.int64), sums


def expand_query(q):
    """-> dense numpy array (n_cells x n_genes) of the declared dtype"""
    if 'x' in q:
        return np.array(q['x'], dtype=np.dtype(q['dtype']))
    rng = np.random.default_rng(q['seed'])
    n, g = len(q['cells']), len(q['genes'])
    mx = q.get('max_count', 60)
    if np.dtype(q['dtype']) == np.uint8:
        mx = min(mx, 255)
    x = rng.integers(0, mx + 1, (n, g))
    mask = rng.random((n, g)) < q.get('density', 1.0)
    x = x * mask
    for r in q.get('zero_rows', []):
        x[r, :] = 0
    if q.get('kind', 'counts') == 'float':
        x = x + rng.random((n, g)) * mask
    if q.get('row_scale'):
        # per-cell magnitude (declared-normalised input: cells of very different overall scale)
        x = x * np.array(q['row_scale'], dtype=np.float64)[:, None]
    return x.astype(np.dtype(q['dtype']))


def explicit(spec):
    """return a copy of a map-case spec with arrays written out (for replay files)"""
    out = json.loads(json.dumps(spec))
    if 'ref' in out and 'sum' not in out['ref']:
        n, s = expand_ref(out['ref'])
        out['ref']['n_cells'] = n.tolist()
        out['ref']['sum'] = s.tolist()
    if 'query' in out and 'x' not in out['query']:
        out['query']['x'] = expand_query(out['query']).tolist()
    return out


# ------------------------------------------------------------------ files
def write_stats(path, tree, ref, extra=None):
    """hand-written precomputed-stats file following docs/input_data_files"""
    n_cells, sums = expand_ref(ref)
    leaves, rows = ref['leaves'], ref['rows']
    nl = len(leaves)
    nc = np.zeros(nl, dtype=np.int64)
    sm = np.zeros((nl, len(ref['genes'])), dtype=np.float64)
    for i, r in enumerate(rows):
        nc[r] = n_cells[i]
        sm[r] = sums[i]
    with h5py.File(path, 'w') as f:
        f.create_dataset('taxonomy_tree', data=json.dumps(tree).encode('utf-8'))
        f.create_dataset('col_names', data=json.dumps(ref['genes']).encode('utf-8'))
        f.create_dataset('cluster_to_row', data=json.dumps(
            {l: int(r) for l, r in zip(leaves, rows)}).encode('utf-8'))
        f.create_dataset('n_cells', data=nc)
        f.create_dataset('sum', data=sm)
        if extra:
            for k, v in extra.items():
                f.create_dataset(k, data=v)
    return path


def to_encoding(x, enc):
    if enc == 'dense':
        return np.asarray(x)
    if enc == 'csr':
        return sp.csr_matrix(x)
    if enc == 'csc':
        return sp.csc_matrix(x)
    raise ValueError(enc)


def write_h5ad(path, x, cells, genes, enc='csr', layer=None, obs_cols=None, var_cols=None,
               uns=None, rechunk=None, x_placeholder=None, obs_index_name=None, var_index_name=None,
               extra_layers=None):
    """write an h5ad; the matrix goes to X or to layers/<layer> (X then holds a placeholder);
    a named obs / var index is stored by anndata under that name (not as '_index')"""
    obs = pd.DataFrame(obs_cols or {}, index=pd.Index([str(c) for c in cells], name=obs_index_name))
    var = pd.DataFrame(var_cols or {}, index=pd.Index([str(g) for g in genes], name=var_index_name))
    m = to_encoding(x, enc)
    if layer is None:
        a = anndata.AnnData(X=m, obs=obs, var=var, uns=uns, layers=extra_layers or None)
    else:
        ph = x_placeholder if x_placeholder is not None else np.zeros(x.shape, dtype=np.float32)
        a = anndata.AnnData(X=ph, obs=obs, var=var, layers={layer: m}, uns=uns)
    a.write_h5ad(path)
    if rechunk:
        rechunk_h5ad(path, rechunk, layer)
    return path


def rechunk_h5ad(path, chunks, layer=None):
    """rewrite the matrix datasets with explicit HDF5 chunk shapes.
    chunks: int (for 1-d sparse arrays) or [r,c] for dense"""
    key = 'X' if layer is None else f'layers/{layer}'
    with h5py.File(path, 'a') as f:
        obj = f[key]
        if isinstance(obj, h5py.Dataset):
            data = obj[()]
            attrs = dict(obj.attrs)
            del f[key]
            c = chunks if isinstance(chunks, (list, tuple)) else [chunks, chunks]
            c = (max(1, min(int(c[0]), max(1, data.shape[0]))), max(1, min(int(c[1]), max(1, data.shape[1]))))
            if data.size == 0:
                d = f.create_dataset(key, data=data)
            else:
                d = f.create_dataset(key, data=data, chunks=c)
            for k, v in attrs.items():
                d.attrs[k] = v
        else:
            for name in ('data', 'indices', 'indptr'):
                arr = obj[name][()]
                attrs = dict(obj[name].attrs)
                del obj[name]
                c = chunks if isinstance(chunks, int) else int(chunks[0])
                if arr.size == 0:
                    d = obj.create_dataset(name, data=arr)
                else:
                    d = obj.create_dataset(name, data=arr, chunks=(max(1, min(c, arr.shape[0])),))
                for k, v in attrs.items():
                    d.attrs[k] = v


def retype_index_arrays(path, dtype, layer=None):
    """rewrite indices / indptr of a sparse matrix group in another integer type that holds them
    (int64 as anndata writes for very large matrices, unsigned / narrow types as other writers produce)"""
    key = 'X' if layer is None else f'layers/{layer}'
    with h5py.File(path, 'a') as f:
        grp = f[key]
        if isinstance(grp, h5py.Dataset):
            return
        for name in ('indices', 'indptr'):
            arr = grp[name][()]
            dt = np.dtype(dtype)
            if arr.size and int(arr.max()) > np.iinfo(dt).max:
                dt = np.dtype('int64')
            attrs = dict(grp[name].attrs)
            chunks = grp[name].chunks
            del grp[name]
            d = grp.create_dataset(name, data=arr.astype(dt), chunks=chunks if arr.size else None)
            for k, v in attrs.items():
                d.attrs[k] = v


def write_query(path, q):
    x = expand_query(q)
    write_h5ad(path, x, q['cells'], q['genes'], enc=q.get('enc', 'csr'),
               layer=q.get('layer'), rechunk=q.get('rechunk'), uns=q.get('uns'),
               obs_index_name=q.get('obs_index_name'), var_index_name=q.get('var_index_name'))
    if q.get('idx_dtype') and q.get('enc', 'csr') != 'dense':
        retype_index_arrays(path, q['idx_dtype'], q.get('layer'))
    return path


def write_map_case(d, spec):
    """write stats / query / markers for a mapping case; returns paths dict"""
    d = pathlib.Path(d)
    stats = write_stats(d / 'stats.h5', spec['tree'], spec['ref'])
    query = write_query(d / 'query.h5ad', spec['query'])
    mpath = d / 'markers.json'
    mpath.write_text(json.dumps(spec['markers']))
    return {'stats': stats, 'query': query, 'markers': mpath}
