#!/bin/bash
# offline, idempotent: hypothesis into /venv (beside the repository's packages)
set -e
HERE="$(cd "$(dirname "${BASH_SOURCE[0]}")" && pwd)"
PY="${VERIF_PYTHON:-/venv/bin/python}"
if ! "$PY" -c "import hypothesis" 2>/dev/null; then
  /venv/bin/pip install --no-index --find-links /opt/veriftools/wheels hypothesis
fi
"$PY" -c "import hypothesis, numpy, scipy, h5py, anndata; print('hypothesis', hypothesis.__version__)"
"$PY" -m compileall -q "$HERE/pbt" >/dev/null
# optional coverage-guided tier: atheris for the repository's interpreter (python 3.12), into /verif/.deps
if ! PYTHONPATH="$HERE/.deps" "$PY" -c "import atheris" 2>/dev/null; then
  /venv/bin/pip install -q --no-index --find-links /opt/veriftools/wheels --target "$HERE/.deps" atheris || echo "atheris not installed (coverage-guided tier will be skipped)"
fi
